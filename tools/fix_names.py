#!/usr/bin/env python3
"""Regenerates the TextNames line of spec/ErgoTrace.tla: the clauses of the engines whose
records carry their own payload (text / fs / hl / lines) and must not be evaluated on
ordinary step records."""
import re
p='/verif/spec/ErgoTrace.tla'
s=open(p).read()
m=re.search(r'ClauseNames ==\s*\{(.*?)\}', s, re.S)
names=re.findall(r'"(\w+)"', m.group(1))
special=[n for n in names if re.match(r'C17_|C18_|C19_|C12_file_|C10_text_', n)]
line='TextNames == {'+', '.join('"%s"'%n for n in special)+'}'
s=re.sub(r'TextNames == \{[^}]*\}', line, s)
open(p,'w').write(s)
print(len(special),'special clause names')
