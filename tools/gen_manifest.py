#!/usr/bin/env python3
"""Regenerates /verif/MANIFEST.json from the table below (one source of truth)."""
import json, subprocess, os

SEQ_NOTE = ("Assumes: small bounds (2-4 tasks, 1-2 epics, 1-2 agents, bounded history) for the exhaustive parts; beyond them "
            "(up to 14 tasks, 7 epics, histories of 70-90 commands) the check SAMPLES: seeded random walks driven by the harness and hand-written size probes, judged by the same clauses; "
            "the Go harness only parses/renames observations (ids, agents, timestamp ranks) - every verdict is an ErgoProps clause "
            "evaluated by TLC on values observed from the binary built from /repo with -tags verif. Trusted: TLC + CommunityModules, Go stdlib.")

checks = {
 "C05": ("model_checking", "TLC model-checks compaction invisibility/idempotence on the ideal ErgoSeq model (timed VIEW: meta-data and timestamp order kept), then every command of the TLC-printed alphabet is run on the real binary from reachable states and along simulated walks with `compact` (twice) interleaved, plus TLC-drawn legacy (untitled) stores; TLC judges post = pre including created/updated/claimed_at ranks, results order, claim order.", "5 C05", "TLA+ model checking (TLC) + trace validation of real executions"),
 "C06": ("model_checking", "The full request cross product (state x claim incl. empty x --agent) through set / new task / claim <id> / claim is explored exhaustively by TLC on the ideal spec (claim invariant, transition table, rejected-untouched as action properties) and executed on the real binary from every reachable (state, claimant) pair; TLC judges every observed step; the concurrent half (claim <id> / set racing each other) is linearised against the ideal spec; and the claim rule is discharged as an inductive invariant by Apalache (unbounded steps) on a typed restatement that TLC checks equal to the spec operator.", "5 C06, 12a", "TLA+ model checking (TLC) + trace validation of real executions + Apalache inductive invariant"),
 "C07": ("model_checking", "Dependency-graph invariants (acyclic, no self edge, same kind, live endpoints, deps/rdeps mirror, rm removes exactly one edge, bad sequence refused) as TLC action properties over all edge insert/remove/prune histories within bounds; the same clauses judged on real executions of every alphabet command from reachable graphs. (The concurrent half of C07 is covered by the process engine under C02.)", "5 C07", "TLA+ model checking (TLC) + trace validation of real executions"),
 "C08": ("model_checking", "The manual's wording of ready/blocked (SpecReady/SpecBlocked) is checked equal to the code-derived predicates on every model state, and judged against the real flags, `list --ready` and `claim` on command-reachable states and on TLC-drawn crafted stores covering every combination of state, claim (legal or not), membership, task and epic dependencies over 3 tasks + 2 epics.", "5 C08", "TLA+ model checking (TLC) + trace validation of real executions"),
 "C09": ("model_checking", "Prune exactness, dry-run = apply, pruned ids refused by every command and never listed again (also after compact) as TLC action properties, judged on real executions from reachable states and crafted stores (every state/membership combination incl. error/blocked children).", "5 C09", "TLA+ model checking (TLC) + trace validation of real executions"),
 "C10": ("model_checking", "Every command of a full alphabet (all input shapes that fail: bad ids, illegal transitions, missing claims, cycles, bad result paths, invalid plans) from every reachable state: exit != 0 implies the observable View is unchanged (TLC-evaluated).", "5 C10", "TLA+ model checking (TLC) + trace validation of real executions"),
 "C11": ("model_checking", "Plan documents from a TLC menu (DAG shapes, forward references, duplicate after, cycles, self, dangling, duplicate titles, blank fields, empty list) applied to reachable stores: adds-exactly / reply-truthful / preserves-rest / invalid-writes-nothing as action properties and as verdicts on real executions.", "5 C11", "TLA+ model checking (TLC) + trace validation of real executions"),
 "C12": ("model_checking", "Binding of Replay: for every observed step TLC checks View(Replay(observed log)) = observed view (state is the specified function of the log), reads leave log and view untouched, every mutation but compact keeps the old events as a prefix, list and show agree.", "5 C12", "TLA+ model checking (TLC) + trace validation of real executions"),
 "C14": ("model_checking", "Epic argument space {live epic, plain task, unknown, pruned, empty} through new task and set, with prune/compact in the alphabet: EpicRef invariant (step form) and bad-epic-refused as TLC action properties and as verdicts on real executions.", "5 C14", "TLA+ model checking (TLC) + trace validation of real executions"),
 "C15": ("model_checking", "Progress and acyclicity of the effective waits-for relation as TLC invariants (step form) on the ideal spec; reachable stores (2-3 tasks, 2 epics) driven on the real binary; finding probes for the known epic/task deadlock.", "5 C15", "TLA+ model checking (TLC) + trace validation of real executions"),
 "C16": ("model_checking", "Every command with --json from reachable states: raw stdout parsed strictly (exactly one JSON value on success; on failure non-zero exit, stderr text, at most one value), reply fields compared by TLC with the following read (C16_truth).", "5 C16", "TLA+ model checking (TLC) + trace validation of real executions"),
 "C20": ("model_checking", "Results only grow at the front, survive every later command incl. compact/prune of neighbours, are attached only to live tasks and only for acceptable paths (path classes ok/missing/dotdot/.ergo) - TLC action properties and verdicts on real executions.", "5 C20", "TLA+ model checking (TLC) + trace validation of real executions"),
}

PROC_NOTE = ("Assumes: scenario menus and process counts of spec/MC_Proc.tla (2-3 writers, 1 reader, at most one kill per run); one write(2) of a "
             "short batch is atomic for concurrent readers and torn data arises only from process death (emulated by SIGKILL at the append hook plus a partial "
             "write by the controller); the kernel releases flock on death. Ordering comes only from blocking sync-point hooks (build tag verif), never from "
             "sleeps. Verdicts are ErgoConc clauses evaluated by TLC on the observed concurrent history. Trusted: TLC, Go stdlib, Linux flock/rename/O_APPEND.")
proc_checks = {
 "C01": ("model_checking", "ErgoProc (processes parked at the code's sync points, flock, file as lines + torn tail) is model-checked for serialisability of concurrent claims; every reachable model state x every enabled process step is then realised on real `ergo claim` processes through the blocking hooks (including select-before-lock and missing-lock-file races) and TLC judges the observed history: some serial order of the successful claims must explain every reply and the final state; no double hand-out; winner holds the task; busy = no effect; nobody waits.", "5 C01", "TLA+ model checking (TLC) + schedule replay on real processes + TLC-judged linearisation"),
 "C02": ("model_checking", "Same engine over a menu of command pairs (new, new+claim, set, claim, claim <id>, sequence both ways, sequence rm, plan, prune, compact, failing commands, missing lock file): linearisation against the ideal sequential spec, whole-lines, never-waits; uncontrolled 4-process storms; and TLC validation (ErgoHooks) of the sync-point traces harvested from the repository's own integration tests run with the hooks on (mutual exclusion per store, writes only under the lock).", "5 C02, 12a", "TLA+ model checking (TLC) + schedule replay on real processes + TLC-judged linearisation"),
 "C03": ("fault_enumeration", "Every sync point of every mutating command kind as a kill point, with death between system calls, inside write(2) (partial line / whole line without newline, written by the controller) and inside the temp-file write; afterwards reads must succeed, only a prefix of the interrupted command's own events may be missing, and a continuation (new task, set, compact, list) must succeed, take effect and leave everything else untouched.", "5 C03", "TLA+ model checking (TLC) + crash-point enumeration on real processes"),
 "C04": ("fault_enumeration", "Kill points between system calls for every multi-event command kind (claim, multi-field set, new task with state/claim, prune of several items, sequence, plan on empty and non-empty logs, compact): the observable state afterwards is exactly the state before or the state after (computed by the ideal spec), judged by TLC.", "5 C04", "TLA+ model checking (TLC) + crash-point enumeration on real processes"),
 "C13": ("model_checking", "A lock-free `list --json --all` parked at each of its sync points (opened, probed) while each writer kind (append, prune, compact and plan rewrites) is advanced to each of its sync points or killed mid-line: the reader must exit 0 and its output must be the view of a whole-event prefix between the logs that were on disk during its window (TLC computes the allowed set from the recorded snapshots).", "5 C13", "TLA+ model checking (TLC) + schedule replay on real processes"),
}
other_checks = {
 "C17": ("exploration", "TLC enumerates the path matrix (input mode x command x field x text class x follow-up) and the trim rule (ErgoText: only titles given by flag or by set may be trimmed); each case is concretised into seeded strings (controls incl. NUL, quotes, HTML, U+2028/2029, astral, combining, NBSP padding, 64 KB, 200 KB of escapable characters), round-tripped through the real binary and judged by TLC from the reported relation (equal/trimmed/different/rejected), also after follow-ups (set other field, compact x2, plan rewrite, reopen).", "5 C17", "TLA+ case enumeration (TLC) + seeded concretisation + TLC-judged round trips", "text", "The quantifier over all Unicode strings is sampled by class, not enumerated; argv cannot carry NUL or >128 KB arguments."),
 "C18": ("exploration", "TLC enumerates every layout (which of 3 nested levels hold .ergo x start level x 7 spellings x presence of plans.jsonl/events.jsonl/lock) and defines Resolve/LogFile; each layout is materialised with a marker task per log file and exercised with where, list, show, set, new, claim, prune, plan, compact and init; TLC judges which store `where` names, which files each command changed (byte hashes), which markers reads showed, lock recreation and init idempotence.", "5 C18", "TLA+ configuration enumeration (TLC) + real file-system layouts + TLC-judged observations", "fs", "Directory chains of depth 3; non-target stores hold plans.jsonl + lock; the quick tier samples 500 of the layouts, thorough runs all."),
 "C19": ("exploration", "TLC-drawn crafted stores (every state/claim/membership/dependency combination over 3 tasks + 2 epics) with titles/agents concretised from width-unambiguous character classes are listed with each flag on pseudo-terminals of seeded widths (20-160) and on a pipe; rows are parsed (id, connector glyph, display width, id column) and TLC (ErgoList) compares them with the --json view: every item once with --all, active tasks once, --ready exact, children under their own epic, summary = bucket counts, empty sentence, row fits, id column constant, valid UTF-8.", "5 C19", "TLA+ state generation (TLC) + pty-driven real output + TLC-judged projection", "list", "Display width is judged only over characters of unambiguous width; row order is not judged; widths below 20 are out of scope."),
}
not_applicable = {
}

def main():
    here = os.path.dirname(os.path.abspath(__file__))
    root = os.path.dirname(here)
    commits = subprocess.run(["git", "-C", "/repo", "log", "--format=%h %s"], capture_output=True, text=True).stdout.splitlines()
    hook_commits = [c.split()[0] for c in commits if c.split(" ", 1)[1].startswith("verif:")]
    m = {
     "version": 1,
     "setup_cmd": "cd /verif/harness && GOFLAGS=-mod=mod GOPROXY=off go build -o check .",
     "hooks": {"guard": "verif", "enable": "go build -tags verif -o <scratch>/ergo ./cmd/ergo  (done by every check from /repo's working tree)",
               "baseline_off_cmd": "cd /repo && GOFLAGS=-mod=mod GOPROXY=off go test -vet=off -count=1 ./...",
               "source_commits": hook_commits, "add_only": True},
     "engines": [
       {"name": "seq", "path": "harness/checks_seq.go", "serves_properties": sorted(checks), "kind_free_text": "TLC model checking of spec/ErgoSeq.tla (ideal), TLC-generated states x alphabet, crafted stores and simulated walks executed on the real binary, TLC trace judging with spec/ErgoTrace.tla"},
       {"name": "proc", "path": "harness/checks_proc.go", "serves_properties": sorted(proc_checks) + ["C07", "C09", "C10", "C14", "C16"], "kind_free_text": "TLC model checking of spec/ErgoProc.tla, schedules/crash points realised on real processes via sync-point hooks (harness/ctl.go), TLC judging with spec/ErgoConc.tla"},
     ],
     "checks": [],
     "notes": "All verdicts are ErgoProps clauses evaluated by TLC on observed behaviour of the binary rebuilt from /repo; known findings in known_findings.json; see DESIGN.md.",
     "not_applicable": [{"property_id": k, "reason": v} for k, v in sorted(not_applicable.items())],
    }
    allc = dict(checks); allc.update(proc_checks)
    for pid in sorted(allc):
        cat, text, ref, tech = allc[pid]
        m["checks"].append({
          "property_id": pid,
          "quick_cmd": f"./harness/check run {pid} --tier quick",
          "thorough_cmd": f"./harness/check run {pid} --tier thorough",
          "evidence_file": f"/verif/evidence/{pid}.json",
          "replay_cmd_template": "./harness/check replay {path}",
          "engine": "proc" if pid in proc_checks else "seq",
          "level_claimed": {"category": cat, "text": text, "design_ref": ref},
          "level_note": PROC_NOTE if pid in proc_checks else SEQ_NOTE,
          "technique": tech,
        })
    for pid in sorted(other_checks):
        cat, text, ref, tech, eng, note = other_checks[pid]
        m["checks"].append({
          "property_id": pid,
          "quick_cmd": f"./harness/check run {pid} --tier quick",
          "thorough_cmd": f"./harness/check run {pid} --tier thorough",
          "evidence_file": f"/verif/evidence/{pid}.json",
          "engine": eng,
          "level_claimed": {"category": cat, "text": text, "design_ref": ref},
          "level_note": note + " Verdicts are TLA+ clauses evaluated by TLC on facts the harness reports; trusted: TLC, Go stdlib.",
          "technique": tech,
        })
    m["checks"].sort(key=lambda c: c["property_id"])
    m["engines"] += [
       {"name": "text", "path": "harness/checks_text.go", "serves_properties": ["C17"], "kind_free_text": "case matrix from spec/ErgoText.tla, seeded strings, round trips judged by TLC"},
       {"name": "fs", "path": "harness/checks_fs.go", "serves_properties": ["C18"], "kind_free_text": "layouts from spec/ErgoFS.tla materialised on disk, judged by TLC"},
       {"name": "list", "path": "harness/checks_list.go", "serves_properties": ["C19"], "kind_free_text": "crafted stores listed on ptys of chosen widths, rows judged by TLC with spec/ErgoList.tla"}]
    json.dump(m, open(os.path.join(root, "MANIFEST.json"), "w"), indent=1)
    print("checks:", len(m["checks"]), "not_applicable:", len(m["not_applicable"]))

main()
