#!/bin/bash
# run_all.sh [quick|thorough] [props...]: run registered checks sequentially, print a summary
tier=${1:-quick}; shift
cd "${VERIF_DIR:-/verif}"
props=${@:-$(python3 -c "import json;print(' '.join(c['property_id'] for c in json.load(open('MANIFEST.json'))['checks']))")}
for p in $props; do
  t0=$(date +%s)
  out=$(VERIF_SEED=${VERIF_SEED:-1} ./harness/check run $p --tier $tier 2>&1); rc=$?
  t1=$(date +%s)
  echo "$p rc=$rc $((t1-t0))s $(echo "$out" | grep -c '^KNOWN-FINDING') known $(echo "$out" | grep -c '^VIOLATION') viol | $(echo "$out" | grep -E 'drift|MACHINERY' | head -1 | cut -c1-150)"
done
