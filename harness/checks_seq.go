package main

// The sequential properties: one generic pipeline, instantiated per property.
//
//  1. TLC model-checks the IDEAL spec (Dev = {}) for the property's clauses
//     (action properties P_Cxx) inside the family's bounds - must pass.
//  2. TLC explores the AS-IS spec and emits states x alphabet (E1) and
//     simulated walks (E2).
//  3. The real binary is driven; every step is recorded.
//  4. TLC judges the recorded steps (ErgoTrace).
//  5. Failures of this property's clauses are matched against
//     known_findings.json; the rest are violations.

import (
	"crypto/sha256"
	"encoding/json"
	"fmt"
	"math/rand"
	"strconv"
	"time"
)

var registry = map[string]func() Check{}

const thoroughStateCap = 2500

type SeqCheck struct {
	Prop       string
	Ideal      SeqModel // quick tier
	IdealDeep  SeqModel // thorough tier (optional)
	IdealProps []string
	IdealInvs  []string
	// E1
	GenQuick    SeqModel
	GenThorough SeqModel
	SampleQuick int        // states sampled in the quick tier (0 = all)
	GenMore     []SeqModel // further bounded families explored completely in both tiers (small)
	// E5: crafted initial stores x alphabet
	CraftQuick     SeqModel
	CraftThorough  SeqModel
	Craft2Quick    SeqModel // a second crafted family (legacy stores)
	Craft2Thorough SeqModel
	// E2
	Sim            SeqModel
	SimNumQuick    int
	SimNumThorough int
	Level          string
	Assumptions    []string
	// histories always executed (the minimal reproductions of listed findings
	// and other hand-picked corner cases); every step is judged
	Probes []emitted
	// the concurrent half of the property: process-layer scenarios (optional)
	Proc *ProcCheck
	// extra drivers contributing observations
	Extra func(e *Env, cov map[string]any) ([]*Obs, error)
	NoBig bool // skip the large-configuration walks
}

// judgeAcc judges observations in batches and keeps only what the report needs
// (the failing records and coverage counters): a thorough run makes hundreds of
// thousands of records, far too many to hold until the end.
type judgeAcc struct {
	e       *Env
	prop    string
	pending []*Obs
	fails   []Failure
	records int
	shards  int
	total   int
	hist    map[string]map[string]int
	seen    map[[32]byte]bool
	samples []any
}

func newJudgeAcc(e *Env, prop string) *judgeAcc {
	return &judgeAcc{e: e, prop: prop, hist: map[string]map[string]int{}, seen: map[[32]byte]bool{}}
}

const judgeBatch = 30000

func (a *judgeAcc) add(obs []*Obs) error {
	a.pending = append(a.pending, obs...)
	if len(a.pending) >= judgeBatch {
		return a.flush()
	}
	return nil
}

func (a *judgeAcc) flush() error {
	if len(a.pending) == 0 {
		return nil
	}
	obs := a.pending
	a.pending = nil
	fails, js, err := a.e.judge(a.prop, obs)
	if err != nil {
		return err
	}
	a.fails = append(a.fails, fails...)
	a.records += js.Records
	a.shards += js.Shards
	a.total += len(obs)
	for _, o := range obs {
		n := o.Cmd.name()
		if a.hist[n] == nil {
			a.hist[n] = map[string]int{}
		}
		if o.Exit == 0 {
			a.hist[n]["accepted"]++
		} else {
			a.hist[n]["rejected"]++
		}
		changed := fmt.Sprint(o.Facts["log_bytes_same"]) == "false"
		if !changed && o.Exit == 0 {
			continue
		}
		pre, _ := json.Marshal(stripTimes(o.Pre))
		c, _ := json.Marshal(o.Cmd)
		key := sha256.Sum256(append(append(pre, '|'), c...))
		if a.seen[key] {
			continue
		}
		a.seen[key] = true
		if len(a.samples) < 3 {
			a.samples = append(a.samples, map[string]any{"history": o.hist, "cmd": o.Cmd, "exit": o.Exit, "reply": o.Reply})
		}
	}
	return nil
}

// the further families are meant to be small; a larger one is sampled in the quick tier
const moreStateCapQuick = 250

func (c *SeqCheck) Run(e *Env) (*Outcome, *Evidence, error) {
	rng := rand.New(rand.NewSource(e.Seed))
	thorough := e.Tier == "thorough"
	cov := map[string]any{}
	phases := map[string]float64{}
	mark := time.Now()
	lap := func(name string) {
		phases[name] += time.Since(mark).Seconds()
		mark = time.Now()
	}
	defer func() { cov["phase_wall_s"] = phases }()

	// 1. ideal model
	idealTimeout := 10 * time.Minute
	if thorough {
		idealTimeout = 40 * time.Minute
	}
	invs := append([]string{"ReplayNeverFails", "TypeOK"}, c.IdealInvs...)
	idealModel := c.Ideal
	if thorough && c.IdealDeep.Name != "" {
		idealModel = c.IdealDeep
	}
	ideal, err := e.runTLC("ideal", "MC_Seq", idealModel.cfg("{}", "none", c.IdealProps, invs), 12, idealTimeout)
	if err != nil {
		return nil, nil, err
	}
	if !ideal.NoError {
		return nil, nil, fatalf("TLC rejects the IDEAL specification for %s (spec error, not a verdict about the code):\n%s", c.Prop, tail(ideal.Out, 60))
	}
	lap("tlc_ideal")
	cov["states"] = ideal.Distinct
	cov["transitions"] = ideal.Generated
	cov["ideal_model"] = map[string]any{"model": idealModel.Name, "bounds": idealModel.bounds(), "distinct": ideal.Distinct, "generated": ideal.Generated,
		"depth": ideal.Depth, "properties": c.IdealProps, "invariants": invs, "wall_s": ideal.WallSeconds}

	// 2. generation from the as-is model
	gen := c.GenQuick
	if thorough {
		gen = c.GenThorough
	}
	var obs []*Obs
	acc := newJudgeAcc(e, c.Prop)
	var histories int
	gens := []SeqModel{}
	if gen.Name != "" {
		gens = append(gens, gen)
	}
	gens = append(gens, c.GenMore...)
	for gi, gen := range gens {
		tag := fmt.Sprintf("e1%c", 'a'+gi)
		emitMode := "states"
		if gi > 0 {
			// small families: the alphabet is executed from the deepest states too (which
			// witness TLC keeps for a state depends on worker scheduling)
			emitMode = "allstates"
		}
		g, err := e.runTLC("gen"+tag, "MC_Seq", gen.cfg(tlaSet(loadAsIsDev()), emitMode, nil, nil), 12, 30*time.Minute)
		if err != nil {
			return nil, nil, err
		}
		if g.TimedOut || len(g.Lines) == 0 {
			return nil, nil, fatalf("state generation produced nothing:\n%s", tail(g.Out, 30))
		}
		states, err := parseEmitted(g.Lines)
		if err != nil {
			return nil, nil, err
		}
		lap("tlc_generate")
		total := len(states)
		if !thorough && c.SampleQuick > 0 && gi == 0 {
			states = sample(states, c.SampleQuick, rng)
		}
		if !thorough && gi > 0 && len(states) > moreStateCapQuick {
			states = sample(states, moreStateCapQuick, rng)
		}
		if thorough && len(states) > thoroughStateCap {
			// keeps the thorough tier of one property within about half an hour
			states = sample(states, thoroughStateCap, rng)
		}
		if len(gen.AlphaOnly) > 0 {
			for i := range states {
				var keep []Cmd
				for _, a := range states[i].Alpha {
					for _, n := range gen.AlphaOnly {
						if a.name() == n {
							keep = append(keep, a)
						}
					}
				}
				states[i].Alpha = keep
			}
		}
		o, ds, err := e.driveStates(tag, states, false, 16)
		if err != nil {
			return nil, nil, err
		}
		obs = append(obs, o...)
		if len(obs) >= judgeBatch {
			lap("drive_e1")
			if err := acc.add(obs); err != nil {
				return nil, nil, err
			}
			obs = nil
			lap("tlc_judge")
		}
		histories += ds.Histories
		lap("drive_e1")
		key := "e1"
		if gi > 0 {
			key = tag
		}
		cov[key] = map[string]any{"model": gen.Name, "bounds": gen.bounds(), "asis_states": total, "states_driven": len(states),
			"steps": len(o), "exhaustive": len(states) == total, "wall_s": ds.Wall,
			"asis_generated": g.Generated}
	}

	// 2b. crafted stores
	for ci, pair := range [][2]SeqModel{{c.CraftQuick, c.CraftThorough}, {c.Craft2Quick, c.Craft2Thorough}} {
		craft := pair[0]
		if thorough && pair[1].Name != "" {
			craft = pair[1]
		}
		if craft.Name == "" {
			continue
		}
		tag := fmt.Sprintf("e5%c", 'a'+ci)
		g, err := e.runTLC(tag, "MC_Seq", craft.cfg(tlaSet(loadAsIsDev()), "roots", nil, nil), 8, 30*time.Minute,
			"-seed", strconv.FormatInt(e.Seed, 10))
		if err != nil {
			return nil, nil, err
		}
		stores, err := parseEmitted(g.Lines)
		if err != nil {
			return nil, nil, err
		}
		if len(stores) == 0 {
			return nil, nil, fatalf("crafted-store generation produced nothing:\n%s", tail(g.Out, 30))
		}
		o, ds, err := e.driveStates(tag, stores, false, 16)
		if err != nil {
			return nil, nil, err
		}
		obs = append(obs, o...)
		if len(obs) >= judgeBatch {
			lap("drive_other")
			if err := acc.add(obs); err != nil {
				return nil, nil, err
			}
			obs = nil
			lap("tlc_judge")
		}
		histories += ds.Histories
		cov[tag] = map[string]any{"model": craft.Name, "bounds": craft.bounds(), "crafted_stores": len(stores), "steps": len(o), "wall_s": ds.Wall}
	}

	// 3. simulation walks
	simN := c.SimNumQuick
	if thorough {
		simN = c.SimNumThorough
	}
	if c.Sim.Name != "" && simN > 0 {
		perWorker := (simN + 7) / 8
		simModel := c.Sim
		simModel.SimSample = 6
		s, err := e.runTLC("sim", "MC_Seq", simModel.cfg(tlaSet(loadAsIsDev()), "leaves", nil, nil), 8, 20*time.Minute,
			"-simulate", "num="+strconv.Itoa(perWorker), "-depth", strconv.Itoa(c.Sim.Depth+1), "-seed", strconv.FormatInt(e.Seed, 10))
		if err != nil {
			return nil, nil, err
		}
		walks, err := parseEmitted(s.Lines)
		if err != nil {
			return nil, nil, err
		}
		if len(walks) == 0 {
			return nil, nil, fatalf("simulation produced no walks:\n%s", tail(s.Out, 30))
		}
		lap("tlc_simulate")
		// in simulation mode TLC evaluates the emitting invariant on every
		// candidate successor: keep one walk per distinct prefix
		seenPrefix := map[string]bool{}
		var kept []emitted
		for _, w := range walks {
			w.Alpha = nil
			key := ""
			if len(w.Hist) > 1 {
				key = fmt.Sprint(w.Hist[:len(w.Hist)-1])
			}
			if seenPrefix[key] {
				continue
			}
			seenPrefix[key] = true
			kept = append(kept, w)
		}
		walks = sample(kept, simN, rng)
		o, ds, err := e.driveStates("e2", walks, true, 16)
		if err != nil {
			return nil, nil, err
		}
		obs = append(obs, o...)
		if len(obs) >= judgeBatch {
			lap("drive_other")
			if err := acc.add(obs); err != nil {
				return nil, nil, err
			}
			obs = nil
			lap("tlc_judge")
		}
		histories += ds.Histories
		cov["e2"] = map[string]any{"model": c.Sim.Name, "walks": len(walks), "depth": c.Sim.Depth, "steps": len(o), "wall_s": ds.Wall}
	}

	// 3b. large configurations: long random histories over many items (harness/bigwalk.go)
	if !c.NoBig {
		nBig, depth := 5, 70
		if thorough {
			nBig, depth = 24, 90
		}
		o, err := e.bigWalks("big", nBig, depth, e.Seed)
		if err != nil {
			return nil, nil, err
		}
		obs = append(obs, o...)
		histories += nBig
		maxItems, maxLog := 0, 0
		for _, x := range o {
			if n := len(x.Post); n > maxItems {
				maxItems = n
			}
			if n := len(x.LogPost); n > maxLog {
				maxLog = n
			}
		}
		cov["big_walks"] = map[string]any{"walks": nBig, "depth": depth, "steps": len(o), "largest_store_items": maxItems, "longest_log_events": maxLog,
			"rule": "random commands over up to 14 tasks and 7 epics (chains of up to 7 ids, plans of up to 8 tasks with after lists of up to 5, results, prunes, compactions), generated by the harness, every step judged by the same clauses"}
		if len(obs) >= judgeBatch {
			lap("drive_other")
			if err := acc.add(obs); err != nil {
				return nil, nil, err
			}
			obs = nil
			lap("tlc_judge")
		}
	}

	if len(c.Probes) > 0 {
		o, ds, err := e.driveStates("probe", c.Probes, true, 8)
		if err != nil {
			return nil, nil, err
		}
		obs = append(obs, o...)
		if len(obs) >= judgeBatch {
			lap("drive_other")
			if err := acc.add(obs); err != nil {
				return nil, nil, err
			}
			obs = nil
			lap("tlc_judge")
		}
		histories += ds.Histories
		cov["probe_steps"] = len(o)
	}
	if c.Proc != nil {
		pc := map[string]any{}
		o, err := c.Proc.collect(e, pc)
		if err != nil {
			return nil, nil, err
		}
		obs = append(obs, o...)
		if len(obs) >= judgeBatch {
			lap("drive_other")
			if err := acc.add(obs); err != nil {
				return nil, nil, err
			}
			obs = nil
			lap("tlc_judge")
		}
		histories += len(o)
		cov["concurrent"] = pc
	}
	if c.Extra != nil {
		o, err := c.Extra(e, cov)
		if err != nil {
			return nil, nil, err
		}
		obs = append(obs, o...)
		if len(obs) >= judgeBatch {
			lap("drive_other")
			if err := acc.add(obs); err != nil {
				return nil, nil, err
			}
			obs = nil
			lap("tlc_judge")
		}
		cov["extra_steps"] = len(o)
	}

	// 4. judge (what is still pending)
	lap("drive_other")
	if err := acc.add(obs); err != nil {
		return nil, nil, err
	}
	obs = nil
	if err := acc.flush(); err != nil {
		return nil, nil, err
	}
	lap("tlc_judge")
	fails := acc.fails
	findings, err := loadFindings()
	if err != nil {
		return nil, nil, err
	}
	out := classify(c.Prop, fails, findings)
	cov["command_histogram"] = acc.hist // vacuity guard: which commands the judged steps exercised, accepted / rejected
	cov["traces_validated_against_impl"] = histories
	cov["evaluations"] = acc.total
	cov["distinct_nontrivial"] = len(acc.seen)
	cov["rule"] = "E1: every command of the TLC-printed alphabet from every (quick: sampled) reachable state of the bounded as-is model, executed on the real binary; E2: TLC -simulate walks executed step by step. A case is non-trivial when the command changed the log or was rejected; distinct by (abstract pre-state, command)."
	cov["samples"] = acc.samples
	cov["judged_records"] = acc.records
	cov["judge_shards"] = acc.shards
	cov["invocations"] = fmt.Sprint("~", acc.total*8)
	level := c.Level
	if level == "" {
		level = "model_checking"
	}
	ev := &Evidence{Level: level, Coverage: cov, Assumptions: append([]string{
		"bounded model: small numbers of tasks/epics/agents and bounded history length (see coverage.ideal_model, coverage.e1)",
		"the harness parses and renames observations; verdicts are ErgoProps clauses evaluated by TLC on observed values",
	}, c.Assumptions...)}
	return out, ev, nil
}
