package main

// One observed step: run a model-level command against a real store and record
// what happened in the specification's vocabulary.

import (
	"encoding/json"
	"fmt"
	"os"
	"regexp"
	"sort"
	"strings"
	"time"
)

type Cmd map[string]any

func (c Cmd) str(k string) string {
	if v, ok := c[k].(string); ok {
		return v
	}
	return Absent
}
func (c Cmd) name() string { return c.str("name") }
func (c Cmd) has(k string) bool {
	v, ok := c[k]
	if !ok {
		return false
	}
	if s, isStr := v.(string); isStr && s == Absent {
		return false
	}
	return true
}
func (c Cmd) strs(k string) []string {
	var out []string
	if a, ok := c[k].([]any); ok {
		for _, x := range a {
			if s, ok := x.(string); ok {
				out = append(out, s)
			}
		}
	}
	if a, ok := c[k].([]string); ok {
		out = append(out, a...)
	}
	return out
}
func (c Cmd) boolean(k string) bool { b, _ := c[k].(bool); return b }

var taskFields = []string{"id", "title", "body", "epic", "state", "claim", "rsum", "rpath", "rclean", "agent"}

// complete fills in the fields the specification's clauses read.
func complete(c Cmd) Cmd {
	// deep copy: commands are shared between worker goroutines and the
	// normalisation below touches nested values (plan documents)
	out := Cmd{}
	if b, err := json.Marshal(c); err == nil {
		_ = json.Unmarshal(b, &out)
	} else {
		for k, v := range c {
			out[k] = v
		}
	}
	if _, ok := out["mode"]; !ok {
		out["mode"] = "json"
	}
	switch out.name() {
	case "new_task", "set", "new_epic":
		for _, f := range taskFields {
			if _, ok := out[f]; !ok {
				out[f] = Absent
			}
		}
		if out.str("agent") == Absent {
			out["agent"] = ""
		}
		if _, ok := out["rpathok"]; !ok {
			rp := out.str("rpath")
			out["rpathok"] = rp == "r1.txt" || rp == "r2.txt" || rp == "sub/r3.txt"
			if out.str("rclean") == Absent && rp != Absent {
				out["rclean"] = rp
			}
		}
		if _, ok := out["newids"]; !ok {
			out["newids"] = []string{}
		}
	case "claim_id", "claim":
		if _, ok := out["agent"]; !ok {
			out["agent"] = ""
		}
		if _, ok := out["epic"]; !ok {
			out["epic"] = ""
		}
	case "list_ready", "list_epic":
		if _, ok := out["epic"]; !ok {
			out["epic"] = ""
		}
	case "plan":
		if _, ok := out["newids"]; !ok {
			out["newids"] = []string{}
		}
		if d, ok := out["doc"].(map[string]any); ok {
			if _, has := d["body"]; !has {
				d["body"] = Absent
			}
			if _, has := d["title"]; !has {
				d["title"] = Absent
			}
			ts, _ := d["tasks"].([]any)
			if ts == nil {
				ts = []any{}
			}
			for _, t := range ts {
				if tm, ok := t.(map[string]any); ok {
					if _, has := tm["body"]; !has {
						tm["body"] = Absent
					}
					if _, has := tm["title"]; !has {
						tm["title"] = Absent
					}
					if _, has := tm["after"]; !has {
						tm["after"] = []any{}
					}
				}
			}
			d["tasks"] = ts
		}
	case "compact":
		if _, ok := out["again"]; !ok {
			out["again"] = false
		}
	}
	return out
}

type Reply struct {
	Kind   string      `json:"kind"`
	ID     string      `json:"id"`
	State  string      `json:"state"`
	Claim  string      `json:"claim"`
	Epic   string      `json:"epic"`
	IDs    []string    `json:"ids"`
	Edges  [][2]string `json:"edges"`
	Pruned []string    `json:"pruned"`
	Status string      `json:"status"`
}

type Obs struct {
	Tag      string           `json:"tag"`
	Cmd      Cmd              `json:"cmd"`
	Exit     int              `json:"exit"`
	Reply    Reply            `json:"reply"`
	Out      outFacts         `json:"out"`
	Pre      map[string]any   `json:"pre"`
	Post     map[string]any   `json:"post"`
	LogPre   []map[string]any `json:"logpre"`
	LogPost  []map[string]any `json:"logpost"`
	Gone     []string         `json:"gone"`
	Readable bool             `json:"readable"`
	ListShow bool             `json:"listshow"`
	Faithful bool             `json:"faithful"`
	Hidden   []string         `json:"hidden"`
	Rows     []string         `json:"rows"`
	Facts    map[string]any   `json:"facts"`
	Only     []string         `json:"only,omitempty"`
	Procs    []procRec        `json:"procs"`
	Readers  []readerRec      `json:"readers"`
	After    []afterRec       `json:"after"`
	Text     map[string]any   `json:"text,omitempty"`
	FS       map[string]any   `json:"fs,omitempty"`
	HL       map[string]any   `json:"hl,omitempty"`
	Lines    map[string]any   `json:"lines,omitempty"`

	// not serialised: for replay files and finding matching
	base     []map[string]any // crafted initial log, if the store was not built by commands
	hist     []Cmd
	stderr   string
	stdout   string
	obsErr   string
	rawPost  Observation
	realArgv []string
}

// invocation builds argv and stdin for a command.
func invocation(c Cmd, ids *IDMap) (args []string, stdin []byte) {
	realID := func(k string) string { return ids.real(c.str(k)) }
	args = []string{"--json"}
	if a := c.str("agent"); a != Absent && a != "" {
		args = append(args, "--agent", a)
	}
	mode := c.str("mode")
	jsonFields := func(withID bool) []byte {
		m := map[string]any{}
		for _, f := range [][2]string{{"title", "title"}, {"body", "body"}, {"state", "state"}, {"claim", "claim"},
			{"rsum", "result_summary"}, {"rpath", "result_path"}} {
			if c.has(f[0]) {
				m[f[1]] = expandToken(c.str(f[0]))
			}
		}
		if c.has("epic") {
			if c.str("epic") == "" {
				m["epic"] = ""
			} else {
				m["epic"] = ids.real(c.str("epic"))
			}
		}
		if raw, ok := c["rawjson"].(string); ok {
			return []byte(raw)
		}
		b, _ := json.Marshal(m)
		return b
	}
	flagFields := func() []string {
		var fl []string
		for _, f := range [][2]string{{"title", "--title"}, {"state", "--state"}, {"claim", "--claim"},
			{"rsum", "--result-summary"}, {"rpath", "--result-path"}} {
			if c.has(f[0]) {
				fl = append(fl, f[1]+"="+expandToken(c.str(f[0])))
			}
		}
		if c.has("epic") {
			e := c.str("epic")
			if e != "" {
				e = ids.real(e)
			}
			fl = append(fl, "--epic="+e)
		}
		return fl
	}
	switch c.name() {
	case "new_task", "new_epic":
		kind := "task"
		if c.name() == "new_epic" {
			kind = "epic"
		}
		args = append(args, "new", kind)
		switch mode {
		case "flags":
			args = append(args, flagFields()...)
			if c.has("body") {
				args = append(args, "--body="+expandToken(c.str("body")))
			}
		case "bodystdin":
			args = append(args, "--body-stdin")
			args = append(args, flagFields()...)
			if c.has("body") {
				stdin = []byte(expandToken(c.str("body")))
			} else {
				stdin = []byte{}
			}
		default:
			stdin = jsonFields(false)
		}
	case "set":
		args = append(args, "set", realID("id"))
		switch mode {
		case "flags":
			args = append(args, flagFields()...)
			if c.has("body") {
				args = append(args, "--body="+expandToken(c.str("body")))
			}
		case "bodystdin":
			args = append(args, "--body-stdin")
			args = append(args, flagFields()...)
			stdin = []byte(expandToken(c.str("body")))
		default:
			stdin = jsonFields(true)
		}
	case "claim_id":
		args = append(args, "claim", realID("id"))
	case "claim":
		args = append(args, "claim")
		if e := c.str("epic"); e != "" && e != Absent {
			args = append(args, "--epic", ids.real(e))
		}
	case "sequence":
		args = append(args, "sequence")
		for _, id := range c.strs("ids") {
			args = append(args, ids.real(id))
		}
	case "sequence_rm":
		args = append(args, "sequence", "rm", realID("a"), realID("b"))
	case "prune":
		args = append(args, "prune", "--yes")
	case "prune_dry":
		args = append(args, "prune")
	case "compact":
		args = append(args, "compact")
	case "plan":
		args = append(args, "plan")
		if raw, ok := c["rawjson"].(string); ok {
			stdin = []byte(raw)
		} else {
			stdin = planJSON(c["doc"])
		}
	case "list_ready":
		args = append(args, "list", "--ready")
		if e := c.str("epic"); e != "" && e != Absent {
			args = append(args, "--epic", ids.real(e))
		}
	case "list":
		args = append(args, "list")
	case "list_all":
		args = append(args, "list", "--all")
	case "list_epic":
		args = append(args, "list", "--epic", ids.real(c.str("epic")))
	case "list_epics":
		args = append(args, "list", "--epics")
	case "show":
		args = append(args, "show", realID("id"))
	case "where":
		args = append(args, "where")
	case "init":
		args = append(args, "init")
	default:
		args = append(args, "version")
	}
	if t := c.str("trail"); t != Absent && t != "" && mode == "json" {
		stdin = append(append([]byte{}, stdin...), map[string]string{"ws": "\n \t\n", "brace": "}", "bracket": " ]",
			"value": "\n{\"title\":\"second value\"}", "garbage": " trailing words", "brace_value": "} {\"title\":\"after a brace\"}"}[t]...)
	}
	return args, stdin
}

func planJSON(doc any) []byte {
	d, _ := doc.(map[string]any)
	out := map[string]any{}
	put := func(dst map[string]any, k string, v any) {
		if s, ok := v.(string); ok && s == Absent {
			return
		}
		if s, ok := v.(string); ok {
			dst[k] = expandToken(s)
			return
		}
		if v != nil {
			dst[k] = v
		}
	}
	put(out, "title", d["title"])
	put(out, "body", d["body"])
	tasks := []any{}
	if ts, ok := d["tasks"].([]any); ok {
		for _, t := range ts {
			tm, _ := t.(map[string]any)
			o := map[string]any{}
			put(o, "title", tm["title"])
			put(o, "body", tm["body"])
			if a, ok := tm["after"].([]any); ok && len(a) > 0 {
				var ex []any
				for _, x := range a {
					if xs, ok := x.(string); ok {
						ex = append(ex, expandToken(xs))
					}
				}
				o["after"] = ex
			}
			tasks = append(tasks, o)
		}
	}
	out["tasks"] = tasks
	b, _ := json.Marshal(out)
	return b
}

// parseReply maps the JSON a command printed onto the Reply record.
func parseReply(c Cmd, stdout []byte, ids *IDMap) Reply {
	r := Reply{IDs: []string{}, Edges: [][2]string{}, Pruned: []string{}}
	var m map[string]any
	var arr []map[string]any
	if err := json.Unmarshal(stdout, &m); err != nil {
		if err2 := json.Unmarshal(stdout, &arr); err2 != nil {
			return r
		}
	}
	s := func(k string) string {
		if v, ok := m[k].(string); ok {
			return v
		}
		return ""
	}
	edges := func() {
		if es, ok := m["edges"].([]any); ok {
			for _, e := range es {
				em, _ := e.(map[string]any)
				f, _ := em["from_id"].(string)
				t, _ := em["to_id"].(string)
				r.Edges = append(r.Edges, [2]string{ids.model(f), ids.model(t)})
			}
		}
	}
	switch c.name() {
	case "new_task", "new_epic":
		r.Kind, r.ID, r.State, r.Epic = s("kind"), ids.model(s("id")), s("state"), ids.model(s("epic_id"))
	case "set":
		r.Kind, r.ID, r.State, r.Claim = "set", ids.model(s("id")), s("state"), s("claimed_by")
	case "claim_id", "claim":
		r.Kind = "claim"
		// the one status the specification knows for a claim is "nothing was ready"; any other
		// word in that field (a later version may say "claimed") is wording, not state
		if s("status") == "no_ready" {
			r.Status = "no_ready"
		}
		r.ID, r.State, r.Claim, r.Epic = ids.model(s("id")), s("state"), s("agent_id"), ids.model(s("epic"))
	case "sequence", "sequence_rm":
		r.Kind = "sequence"
		edges()
	case "prune", "prune_dry":
		r.Kind = "prune"
		if ps, ok := m["pruned_ids"].([]any); ok {
			for _, p := range ps {
				if x, ok := p.(string); ok {
					r.Pruned = append(r.Pruned, ids.model(x))
				}
			}
		}
	case "compact":
		r.Kind, r.Status = "compact", s("status")
	case "plan":
		r.Kind = "plan"
		if e, ok := m["epic"].(map[string]any); ok {
			x, _ := e["id"].(string)
			r.ID = ids.model(x)
		}
		if ts, ok := m["tasks"].([]any); ok {
			for _, t := range ts {
				tm, _ := t.(map[string]any)
				x, _ := tm["id"].(string)
				r.IDs = append(r.IDs, ids.model(x))
			}
		}
		edges()
	case "show":
		var sh showOut
		var wrap struct {
			Epic *showOut `json:"epic"`
		}
		if json.Unmarshal(stdout, &wrap) == nil && wrap.Epic != nil {
			sh = *wrap.Epic
		} else {
			_ = json.Unmarshal(stdout, &sh)
		}
		r.Kind, r.ID, r.State, r.Claim, r.Epic = "show", ids.model(sh.ID), sh.State, sh.ClaimedBy, ids.model(sh.EpicID)
	case "list_ready", "list", "list_all", "list_epic", "list_epics":
		for _, it := range arr {
			x, _ := it["id"].(string)
			r.IDs = append(r.IDs, ids.model(x))
		}
	}
	sort.Strings(r.Pruned)
	return r
}

// Stepper carries a store and its id map through a history.
type Stepper struct {
	Base []map[string]any
	St   *Store
	IDs  *IDMap
	Gone map[string]bool
	last *Observation // observation after the previous step
	hist []Cmd
}

func newStepper(st *Store) *Stepper {
	return &Stepper{St: st, IDs: newIDMap(), Gone: map[string]bool{}}
}

func (sp *Stepper) fork(root string) (*Stepper, error) {
	st, err := sp.St.clone(root)
	if err != nil {
		return nil, err
	}
	g := map[string]bool{}
	for k := range sp.Gone {
		g[k] = true
	}
	h := append([]Cmd(nil), sp.hist...)
	return &Stepper{St: st, IDs: sp.IDs.copy(), Gone: g, last: sp.last, hist: h, Base: sp.Base}, nil
}

// pseudo executes the steps that are not ergo commands (things that happen TO the
// store): a writer that died inside write(2), a result file whose content is
// replaced.  They are part of the history (replays and the confirm step repeat them).
func (sp *Stepper) pseudo(c Cmd) bool {
	switch c.name() {
	case "tear":
		if c.str("how") == "cutlast" {
			// the writer of the last batch died inside its write(2): the final line is cut in half
			// (for a two-event batch such as claim + state this leaves the first event alone)
			if b, err := os.ReadFile(sp.St.LogPath()); err == nil {
				t := strings.TrimSuffix(string(b), "\n")
				if i := strings.LastIndexByte(t, '\n'); i >= 0 {
					_ = os.WriteFile(sp.St.LogPath(), []byte(t[:i+1+(len(t)-i-1)/2]), 0o644)
				}
			}
			break
		}
		// a fragment without newline at the end of the log
		if f, err := os.OpenFile(sp.St.LogPath(), os.O_APPEND|os.O_WRONLY, 0o644); err == nil {
			frag := `{"type":"new_task","ts":"2026-01-01T00:00:00Z","data":{"id":"TORN22","uu`
			if c.str("how") == "full" {
				frag = `{"type":"unknown_event","ts":"2026-01-01T00:00:00Z","data":{}}`
			}
			_, _ = f.WriteString(frag)
			f.Close()
		}
	case "rewrite":
		sp.St.rewrite(c.str("path"))
	case "grow":
		// a long history: n more (valid) retitlings of one item, appended as ergo would have written them
		if f, err := os.OpenFile(sp.St.LogPath(), os.O_APPEND|os.O_WRONLY, 0o644); err == nil {
			id := sp.IDs.real(c.str("id"))
			n, _ := c["n"].(float64)
			if n == 0 {
				if k, ok := c["n"].(int); ok {
					n = float64(k)
				}
			}
			t0 := time.Now().UTC()
			for k := 0; k < int(n); k++ {
				ts := t0.Add(time.Duration(k) * time.Microsecond).Format(time.RFC3339Nano)
				line, _ := json.Marshal(map[string]any{"type": "title", "ts": ts, "data": map[string]any{"id": id, "title": fmt.Sprintf("title %d", k), "ts": ts}})
				_, _ = f.Write(append(line, '\n'))
			}
			f.Close()
		}
	case "clockback":
		// the wall clock steps back by an hour: seen from the commands that follow, everything
		// recorded so far lies an hour in the future (all timestamps in the log are moved forward)
		if b, err := os.ReadFile(sp.St.LogPath()); err == nil {
			re := regexp.MustCompile(`"(\d{4}-\d\d-\d\dT\d\d:\d\d:\d\d(?:\.\d+)?Z)"`)
			out := re.ReplaceAllFunc(b, func(m []byte) []byte {
				t, err := time.Parse(time.RFC3339Nano, string(m[1:len(m)-1]))
				if err != nil {
					return m
				}
				return []byte(`"` + t.Add(time.Hour).Format(time.RFC3339Nano) + `"`)
			})
			_ = os.WriteFile(sp.St.LogPath(), out, 0o644)
		}
	default:
		return false
	}
	sp.hist = append(sp.hist, c)
	sp.last = nil
	return true
}

// step runs c and returns the observation record.
func (sp *Stepper) step(c Cmd, tag string) *Obs {
	c = complete(c)
	rawPre := sp.St.readLog()
	// learn the ids (and the pruned ids) of a store that was not built through this stepper
	for _, id := range tombstoned(parseLog(rawPre, sp.IDs, true)) {
		sp.Gone[id] = true
	}
	var pre Observation
	if sp.last != nil {
		pre = *sp.last
	} else {
		pre = sp.St.observe(sp.IDs)
	}
	args, stdin := invocation(c, sp.IDs)
	var env []string
	if ids := c.strs("forceids"); len(ids) > 0 {
		env = append(env, "ERGO_VERIF_IDS="+strings.Join(ids, ","))
	}
	if c.boolean("reuse_gone") {
		// make the id source propose every pruned id first (the hook hands them out in order)
		var forced []string
		for g := range sp.Gone {
			forced = append(forced, sp.IDs.real(g))
		}
		sort.Strings(forced)
		if len(forced) > 0 {
			// pruned ids interleaved with fresh ones: a guarded draw skips the pruned id and
			// takes the fresh one, so that later draws of the same command meet a pruned id too
			var list []string
			for round := 0; round < 4; round++ {
				for k, g := range forced {
					list = append(list, g, fmt.Sprintf("FRESH%c", "ABCDEFGHIJKLMNOPQRSTUVWXYZ234567"[(round*len(forced)+k+len(sp.hist))%32]))
				}
			}
			env = append(env, "ERGO_VERIF_IDS="+strings.Join(list, ","))
		}
	}
	res := sp.St.run(stdin, env, args...)
	rawPost := sp.St.readLog()
	plPre := parseLog(rawPre, sp.IDs, true)
	plPost := parseLog(rawPost, sp.IDs, true) // learns new ids in log order
	post := sp.St.observe(sp.IDs)
	if n := c.name(); n == "new_task" || n == "new_epic" || n == "plan" {
		// the fresh ids are whatever the command actually created, in log order:
		// the create events it appended (plan rewrites the file, keeping the old events as a prefix)
		fresh := []string{}
		for k, ev := range plPost.events {
			if k < len(plPre.events) {
				continue
			}
			if t := ev["type"]; t == "new_task" || t == "new_epic" {
				fresh = append(fresh, fmt.Sprint(ev["id"]))
			}
		}
		c["newids"] = fresh
	}

	rk := newRanker()
	rk.addView(pre.View)
	rk.addView(post.View)
	rk.addLog(plPre)
	rk.addLog(plPost)
	tab := rk.table()

	o := &Obs{Tag: tag, Cmd: c, Exit: res.Exit, Procs: []procRec{}, Readers: []readerRec{}, After: []afterRec{}, Readable: pre.Readable && post.Readable,
		ListShow: len(pre.Mismatch) == 0 && len(post.Mismatch) == 0, Faithful: post.Faithful, Hidden: post.Hidden,
		Pre: rankView(pre.View, tab), Post: rankView(post.View, tab),
		LogPre: rankLog(plPre, tab), LogPost: rankLog(plPost, tab),
		Facts: map[string]any{}, stderr: string(res.Stderr), stdout: string(res.Stdout), obsErr: post.Err,
		rawPost: post, realArgv: args}
	if res.TimedOut {
		o.Exit = 124
	}
	o.Reply = parseReply(c, res.Stdout, sp.IDs)
	// rows of the list reads against the state observed through `list --all` + `show`
	o.Rows = []string{}
	switch c.name() {
	case "list", "list_all", "list_epic", "list_ready", "list_epics":
		var rows []listItem
		if res.Exit == 0 && json.Unmarshal(res.Stdout, &rows) == nil {
			for _, r := range rows {
				mid := sp.IDs.model(r.ID)
				it, ok := post.View[mid]
				if !ok {
					o.Rows = append(o.Rows, mid+":unknown")
					continue
				}
				if r.State != it.State || r.ClaimedBy != it.Claim || sp.IDs.model(r.EpicID) != it.Epic {
					o.Rows = append(o.Rows, mid+":fields")
				}
				if it.Kind == "task" && (r.Ready != it.Ready || r.Blocked != it.Blocked) {
					o.Rows = append(o.Rows, mid+":flags")
				}
			}
		}
	}
	n, trailing, vals := countJSONValues(res.Stdout)
	o.Out = outFacts{JSON: true, Values: n, Trailing: trailing, Stderr: len(strings.TrimSpace(string(res.Stderr))) > 0, IDShape: true}
	if c.name() == "new_task" || c.name() == "new_epic" {
		if len(vals) == 1 {
			var m map[string]any
			if json.Unmarshal(vals[0], &m) == nil {
				if id, ok := m["id"].(string); ok {
					o.Out.IDShape = idShape.MatchString(id)
				}
			}
		}
	}
	o.Facts["log_bytes_same"] = string(rawPre) == string(rawPost)
	o.Facts["log_prefix_kept"] = strings.HasPrefix(string(rawPost), string(rawPre))
	o.Facts["log_ok"] = plPost.ok
	o.Facts["timed_out"] = res.TimedOut
	gone := make([]string, 0, len(sp.Gone))
	for k := range sp.Gone {
		gone = append(gone, k)
	}
	sort.Strings(gone)
	o.Gone = gone
	for _, id := range tombstoned(plPost) {
		sp.Gone[id] = true
	}
	o.hist = append([]Cmd(nil), sp.hist...)
	o.base = sp.Base
	sp.hist = append(sp.hist, c)
	sp.last = &post
	return o
}

func (o *Obs) describe() string {
	b, _ := json.Marshal(o.Cmd)
	return fmt.Sprintf("%s exit=%d", b, o.Exit)
}
