package main

// C06 strengthening: the claim rule as an inductive invariant, discharged by
// Apalache (spec/ErgoInd.tla) - any number of steps, bounded numbers of tasks
// and agents - with TLC checking that the typed decision operator equals
// ErgoOps!DecideSet on every input (spec/MC_IndEq.tla), and a weakened variant
// (deviation D2) that Apalache must refute.

import (
	"bytes"
	"context"
	"os"
	"os/exec"
	"path/filepath"
	"strings"
	"time"
)

func apalache(work string, args ...string) (string, error) {
	ctx, cancel := context.WithTimeout(context.Background(), 5*time.Minute)
	defer cancel()
	cmd := exec.CommandContext(ctx, "apalache-mc", args...)
	cmd.Dir = work
	var buf bytes.Buffer
	cmd.Stdout, cmd.Stderr = &buf, &buf
	err := cmd.Run()
	return buf.String(), err
}

func inductiveClaimRule(e *Env, cov map[string]any) ([]*Obs, error) {
	t0 := time.Now()
	eq, err := e.runTLC("indeq", "MC_IndEq", "INIT Init\nNEXT Next\nCONSTANT Dev = {}\n", 1, 10*time.Minute)
	if err != nil {
		return nil, err
	}
	if !eq.NoError {
		return nil, fatalf("the typed decision operator of ErgoIndOps differs from ErgoOps!DecideSet:\n%s", tail(eq.Out, 30))
	}
	if _, err := exec.LookPath("apalache-mc"); err != nil {
		cov["inductive"] = map[string]any{"skipped": "apalache-mc not on PATH"}
		return nil, nil
	}
	work := filepath.Join(e.Scratch, "apalache")
	if err := copyDir(filepath.Join(verifDir, "spec"), work); err != nil {
		return nil, err
	}
	defer os.RemoveAll(work)
	type ob struct {
		name   string
		args   []string
		expect string
	}
	obligations := []ob{
		{"Init => IndInv", []string{"check", "--config=ind.cfg", "--init=Init", "--inv=IndInv", "--length=0", "MC_Ind.tla"}, "EXITCODE: OK"},
		{"IndInv /\\ Next => IndInv'", []string{"check", "--config=ind.cfg", "--init=IndInit", "--inv=IndInv", "--length=1", "MC_Ind.tla"}, "EXITCODE: OK"},
		{"(negative control) with the D2 guard dropped the step is refuted", []string{"check", "--config=indweak.cfg", "--init=IndInit", "--inv=IndInv", "--length=1", "MC_Ind.tla"}, "EXITCODE: ERROR"},
	}
	done := 0
	var rows []map[string]any
	for _, o := range obligations {
		out, _ := apalache(work, o.args...)
		ok := strings.Contains(out, o.expect)
		rows = append(rows, map[string]any{"obligation": o.name, "as_expected": ok})
		if ok {
			done++
		} else {
			return nil, fatalf("Apalache obligation %q did not come out as expected:\n%s", o.name, tail(out, 25))
		}
	}
	cov["inductive"] = map[string]any{"tool": "apalache-mc 0.58", "module": "spec/ErgoInd.tla (3 tasks, 2 agents, unbounded steps)",
		"obligations": rows, "discharged": done, "equivalence_with_ErgoOps": "TLC, spec/MC_IndEq.tla: holds on every input", "wall_s": time.Since(t0).Seconds()}
	return nil, nil
}
