module verifharness

go 1.23
