package main

// E6: harvested traces.  The repository's own integration tests are run with
// the hooks compiled in and ERGO_VERIF_TRACE set; every ergo process they spawn
// appends its sync-point records to one file.  TLC (spec/ErgoHooks.tla) checks
// the file: per-process point order against the parking-point automaton of the
// process-layer model, mutual exclusion per store, and "every write lies inside
// a held lock of the same process".

import (
	"bufio"
	"encoding/json"
	"fmt"
	"os"
	"os/exec"
	"path/filepath"
	"strings"
	"time"
)

type harvestStats struct {
	Records   int
	Processes int
	Stores    int
	SuiteOK   bool
	Wall      float64
}

func (e *Env) harvest() ([]Failure, harvestStats, error) {
	var hs harvestStats
	t0 := time.Now()
	src := filepath.Join(e.Scratch, "harvest-src")
	// a scratch copy of the working tree (without .git): the tests build the binary themselves
	cp := exec.Command("rsync", "-a", "--exclude", ".git", repoDir+"/", src+"/")
	if out, err := cp.CombinedOutput(); err != nil {
		return nil, hs, fatalf("cannot copy %s: %v %s", repoDir, err, out)
	}
	defer os.RemoveAll(src)
	trace := filepath.Join(e.Scratch, "harvest.ndjson")
	run := func(gobin string, extra ...string) ([]byte, error) {
		cmd := exec.Command(gobin, "test", "-tags", "verif", "-vet=off", "-count=1", "./cmd/ergo/")
		cmd.Dir = src
		cmd.Env = append(append(cleanGoEnv(), "ERGO_VERIF_TRACE="+trace, "GOFLAGS=-mod=mod -tags=verif"), extra...)
		return cmd.CombinedOutput()
	}
	out, err := run("go")
	if err != nil && !strings.Contains(string(out), "FAIL") {
		out, err = run("go1.26", "GOTOOLCHAIN=local")
	}
	hs.SuiteOK = err == nil
	f, ferr := os.Open(trace)
	if ferr != nil {
		return nil, hs, fatalf("the harvested test run left no trace (suite output: %s)", tail(string(out), 10))
	}
	defer f.Close()
	work := filepath.Join(e.Scratch, "tlc-harvest")
	if err := copyDir(filepath.Join(verifDir, "spec"), work); err != nil {
		return nil, hs, err
	}
	outf, err := os.Create(filepath.Join(work, "harvest.ndjson"))
	if err != nil {
		return nil, hs, err
	}
	enc := json.NewEncoder(outf)
	sc := bufio.NewScanner(f)
	sc.Buffer(make([]byte, 0, 1<<20), 64<<20)
	last := map[int]string{}
	pids := map[int]bool{}
	stores := map[string]bool{}
	type rec struct {
		Pid   int    `json:"pid"`
		Point string `json:"point"`
		Store string `json:"store"`
	}
	var recs []rec
	for sc.Scan() {
		var h HookRec
		if json.Unmarshal(sc.Bytes(), &h) != nil {
			continue
		}
		store := last[h.Pid]
		if len(h.KV) > 0 && filepath.IsAbs(h.KV[0]) {
			store = filepath.Dir(h.KV[0])
		}
		last[h.Pid] = store
		pids[h.Pid] = true
		stores[store] = true
		r := rec{h.Pid, h.Point, store}
		recs = append(recs, r)
		_ = enc.Encode(r)
	}
	outf.Close()
	hs.Records, hs.Processes, hs.Stores = len(recs), len(pids), len(stores)
	if len(recs) == 0 {
		return nil, hs, fatalf("harvested trace is empty")
	}
	cfg := "SPECIFICATION Spec\nCONSTANTS\n  TraceFile = \"harvest.ndjson\"\n  OutFile = \"harvest-verdicts.json\"\nINVARIANT Done\nPOSTCONDITION Consumed\nCHECK_DEADLOCK FALSE\n"
	res, err := e.runTLCIn(work, "harvest", "ErgoHooks", cfg, 1, 20*time.Minute)
	if err != nil {
		return nil, hs, err
	}
	b, rerr := os.ReadFile(filepath.Join(work, "harvest-verdicts.json"))
	if rerr != nil || !res.NoError {
		return nil, hs, fatalf("harvest validation failed (TLC did not consume the trace):\n%s", tail(res.Out, 30))
	}
	var v struct {
		N   int `json:"n"`
		Bad []struct {
			Line   int    `json:"line"`
			Clause string `json:"clause"`
		} `json:"bad"`
	}
	if err := json.Unmarshal(b, &v); err != nil {
		return nil, hs, fatalf("harvest verdicts: %v", err)
	}
	var fails []Failure
	name := map[string]string{"PerProcess": "R_hook_order", "MutualExclusion": "C02_h_mutex", "WritesUnderLock": "C02_h_writes_locked"}
	for _, x := range v.Bad {
		if x.Line < 1 || x.Line > len(recs) {
			continue
		}
		r := recs[x.Line-1]
		lo := x.Line - 6
		if lo < 0 {
			lo = 0
		}
		ctx := []string{}
		for _, c := range recs[lo:x.Line] {
			ctx = append(ctx, fmt.Sprintf("%d:%s", c.Pid, c.Point))
		}
		o := &Obs{Tag: "e6", Cmd: Cmd{"name": "harvest", "mode": "json", "line": x.Line, "pid": r.Pid, "point": r.Point, "context": ctx},
			Facts: map[string]any{}, Pre: map[string]any{}, Post: map[string]any{}}
		fails = append(fails, Failure{Obs: o, Clause: name[x.Clause]})
	}
	hs.Wall = time.Since(t0).Seconds()
	return fails, hs, nil
}
