package main

// E5: crafted logs.  Abstract event sequences that TLC produced (stores that
// commands cannot reach: hand-merged histories, illegal state/claim
// combinations, legacy items) are serialised in ergo's line format.  The
// writer reproduces only the line format; selfTestWriter compares a canonical
// history written through real commands with the same history written through
// the writer.

import (
	"encoding/json"
	"fmt"
	"os"
	"path/filepath"
	"strings"
	"time"
)

var craftEpoch = time.Date(2026, 1, 1, 0, 0, 0, 0, time.UTC)

func craftTime(n any) string {
	k := 0
	switch v := n.(type) {
	case float64:
		k = int(v)
	case int:
		k = v
	}
	// a quarter of a second per tick: RFC3339Nano drops trailing zeros, so crafted logs mix
	// "…:01Z", "…:01.25Z", "…:01.5Z" - the same instant ordering, different string ordering
	return craftEpoch.Add(time.Duration(k) * 250 * time.Millisecond).Format(time.RFC3339Nano)
}

// craftID gives model id "i<k>" a fixed, valid real id.
func craftID(model string) string {
	if !strings.HasPrefix(model, "i") {
		if model == "" {
			return ""
		}
		return "ZZZZZZ"
	}
	const alpha = "ABCDEFGHIJKLMNOPQRSTUVWXYZ234567"
	n := 0
	fmt.Sscanf(model[1:], "%d", &n)
	b := []byte("CRAFAA")
	b[4] = alpha[(n/32)%32]
	b[5] = alpha[n%32]
	return string(b)
}

// tokens the specification uses for text the driver concretises
var bigBody = strings.Repeat("lorem ipsum dolor sit amet ", 6*1024*1024/27)

const uniTitle = "Nïcé 任务 タスク ñ"

// midBody: longer than the usual buffer sizes (4 KiB, 64 KiB is covered by the text engine), far below the line limit
var midBody = "mid " + strings.Repeat("0123456789abcdef", 6000/16)

func expandToken(v string) string {
	switch v {
	case "BIG":
		return bigBody
	case "MID":
		return midBody
	case "UNI":
		return uniTitle
	case "UBLANK":
		return "\u00a0\u3000\u00a0"
	}
	return v
}

func craftLine(ev map[string]any) ([]byte, error) {
	s := func(k string) string { v, _ := ev[k].(string); return expandToken(v) }
	typ := s("type")
	ts := craftTime(ev["ts"])
	var data map[string]any
	switch typ {
	case "new_task", "new_epic":
		data = map[string]any{"id": craftID(s("id")), "uuid": fmt.Sprintf("00000000-0000-4000-8000-%012d", len(s("id"))*1000+int(ev["ts"].(float64))),
			"epic_id": craftID(s("epic")), "state": s("state"), "title": s("title"), "body": s("body"), "created_at": ts}
	case "state":
		data = map[string]any{"id": craftID(s("id")), "state": s("state"), "ts": ts}
	case "claim":
		data = map[string]any{"id": craftID(s("id")), "agent_id": s("agent"), "ts": ts}
	case "unclaim":
		data = map[string]any{"id": craftID(s("id")), "ts": ts}
	case "title":
		data = map[string]any{"id": craftID(s("id")), "title": s("text"), "ts": ts}
	case "body":
		data = map[string]any{"id": craftID(s("id")), "body": s("text"), "ts": ts}
	case "epic":
		data = map[string]any{"id": craftID(s("id")), "epic_id": craftID(s("epic")), "ts": ts}
	case "link", "unlink":
		data = map[string]any{"from_id": craftID(s("from")), "to_id": craftID(s("to")), "type": "depends"}
	case "result":
		data = map[string]any{"task_id": craftID(s("id")), "summary": s("summary"), "path": s("path"),
			"sha256_at_attach": strings.Repeat("0", 64), "ts": ts}
	case "tombstone":
		data = map[string]any{"id": craftID(s("id")), "ts": ts}
	default:
		data = map[string]any{}
	}
	d, err := json.Marshal(data)
	if err != nil {
		return nil, err
	}
	return json.Marshal(map[string]any{"type": typ, "ts": ts, "data": json.RawMessage(d)})
}

func writeCraftedLog(st *Store, events []map[string]any) error {
	var b []byte
	for _, ev := range events {
		l, err := craftLine(ev)
		if err != nil {
			return err
		}
		b = append(b, l...)
		b = append(b, '\n')
	}
	return os.WriteFile(filepath.Join(st.ErgoDir(), "plans.jsonl"), b, 0o644)
}
