package main

// E3 / E4: schedules and crash points of real processes.
//
// TLC explores the process-layer model (spec/ErgoProc.tla, as-is deviations
// on) for a menu of scenarios and prints, for every distinct model state, one
// witness schedule and the steps enabled in it.  Each (state, enabled step) is
// realised on real ergo processes: the witness prefix is re-run gate by gate,
// then that one step is taken, then every process is run to completion.  The
// observed concurrent history is written as one record and judged by TLC
// (spec/ErgoConc.tla).

import (
	"encoding/json"
	"fmt"
	"os"
	"path/filepath"
	"sort"
	"strings"
	"sync"
	"sync/atomic"
)

type procRec struct {
	Name   string `json:"name"`
	Cmd    Cmd    `json:"cmd"`
	Exit   int    `json:"exit"`
	Busy   bool   `json:"busy"`
	Killed bool   `json:"killed"`
	Inv    int    `json:"inv"`
	Res    int    `json:"res"`
	Reply  Reply  `json:"reply"`
	stderr string
	trail  []string
}

type readerRec struct {
	Kind  string             `json:"kind"`
	RID   string             `json:"rid"`
	Name  string             `json:"name"`
	Exit  int                `json:"exit"`
	Items []map[string]any   `json:"items"`
	Snaps [][]map[string]any `json:"snaps"`
	err   string
}

type afterRec struct {
	Cmd      Cmd            `json:"cmd"`
	Exit     int            `json:"exit"`
	Readable bool           `json:"readable"`
	Mutation bool           `json:"mutation"`
	InEffect bool           `json:"ineffect"`
	View     map[string]any `json:"view"`
}

type Scenario struct {
	Name    string
	Init    []map[string]any `json:"init"`
	Cmds    map[string]Cmd   `json:"cmds"`
	Readers []string         `json:"readers"`
	NoLock  bool             `json:"nolock"`
	Legacy  bool             `json:"legacy"`
	NoLog   bool             `json:"nolog"`
	RKind   string           `json:"rkind"`
	RID     string           `json:"rid"`
}

type procState struct {
	Scn   string     `json:"scn"`
	Sched [][]string `json:"sched"`
	Next  [][]string `json:"next"`
}

var writerPoints = map[string]bool{"lock.flock": true, "lock.acquired": true, "read.scanned": true,
	"append.before": true, "tmp.before": true, "rename.before": true, "rename.after": true, "lock.releasing": true, "lock.released": true,
	"ensure.create": true}
var readerPoints = map[string]bool{"path.plans": true, "path.legacy": true, "path.default": true, "read.open": true, "read.probed": true}

type runner struct {
	e        *Env
	scn      Scenario
	st       *Store
	ids      *IDMap
	ctl      *Ctl
	procs    map[string]*Proc
	inLock   map[string]bool
	scanned  map[string]bool    // the snapshot read of the current lock section has been taken
	rsteps   map[string]int     // model steps taken by each reader
	snaps    [][]map[string]any // log after every controller step
	rwin     map[string][2]int  // reader -> [first, last] snapshot index
	torn     string
	crashes  int
	timeouts int
}

func (r *runner) isReader(name string) bool {
	for _, x := range r.scn.Readers {
		if x == name {
			return true
		}
	}
	return false
}

func (r *runner) cmdOf(name string) Cmd {
	if r.isReader(name) {
		return Cmd{"name": "list", "mode": "json"}
	}
	return complete(r.scn.Cmds[name])
}

func (r *runner) snapshot() {
	pl := parseLog(r.st.readLog(), r.ids, true)
	evs := pl.events
	// a torn last line is not an event
	if n := len(evs); n > 0 && evs[n-1]["type"] == "<garbage>" {
		evs = evs[:n-1]
	}
	pl.events = evs
	rk := newRanker()
	rk.addLog(pl)
	r.snaps = append(r.snaps, rankLog(pl, rk.table()))
}

func (r *runner) ensure(name string) *Proc {
	if p, ok := r.procs[name]; ok {
		return p
	}
	args, stdin := invocation(r.cmdOf(name), r.ids)
	if r.isReader(name) {
		args = []string{"--json", "list", "--all"}
		if r.scn.RKind == "show" {
			args = []string{"--json", "show", r.ids.real(r.scn.RID)}
		}
		stdin = nil
		r.rwin[name] = [2]int{len(r.snaps) - 1, -1}
	}
	p := r.ctl.Start(name, r.st, stdin, nil, args...)
	r.procs[name] = p
	// wait for the first park (or the exit of a process that meets no hook)
	if rec, ok := p.next(gateTimeout); ok {
		r.track(name, rec)
	}
	return p
}

func (r *runner) track(name string, rec *HookRec) {
	switch rec.Point {
	case "lock.acquired":
		r.inLock[name] = true
		r.scanned[name] = false
	case "lock.released":
		r.inLock[name] = false
	}
}

// advance takes one model step of process `name`: the code up to the next
// sync point at which the process-layer model parks a process.
func (r *runner) advance(name string) {
	if _, started := r.procs[name]; !started && r.isReader(name) {
		// a reader's first step is choosing the log file: starting the process
		// parks it at its first sync point, which is exactly that
		r.rsteps[name]++
		r.ensure(name)
		return
	}
	_, already := r.procs[name]
	p := r.ensure(name)
	if p.Exited() && p.parked == nil {
		return
	}
	if !already && p.parked != nil && writerPoints[p.parked.Point] && !r.isReader(name) {
		// the very first sync point of the process is one the model parks at
		// (init: the creation of the log file): starting it was the step
		return
	}
	if r.isReader(name) {
		// the model's reader takes four steps (path, open, scan+probe, exit); whatever
		// further sync points the real reader has are passed in the final run to completion
		r.rsteps[name]++
		if r.rsteps[name] >= 4 {
			p.Finish()
			r.closeReader(name)
			return
		}
		rec := p.RunTo(func(h HookRec) bool { return readerPoints[h.Point] })
		if rec == nil {
			r.closeReader(name)
		}
		return
	}
	rec := p.RunTo(func(h HookRec) bool {
		r.track(name, &h)
		if h.Point == "read.scanned" {
			// only the first read of a lock section is the model's snapshot
			if r.inLock[name] && !r.scanned[name] {
				r.scanned[name] = true
				return true
			}
			return false
		}
		return writerPoints[h.Point]
	})
	_ = rec
}

func (r *runner) closeReader(name string) {
	if w, ok := r.rwin[name]; ok && w[1] < 0 {
		r.snapshot()
		r.rwin[name] = [2]int{w[0], len(r.snaps) - 1}
	}
}

func (r *runner) kill(name, how string) {
	p := r.ensure(name)
	if p.Exited() {
		return
	}
	var line, path string
	if p.parked != nil && len(p.parked.KV) >= 1 {
		path = p.parked.KV[0]
		if len(p.parked.KV) >= 2 {
			line = p.parked.KV[1]
		}
	}
	point := ""
	if p.parked != nil {
		point = p.parked.Point
	}
	p.Kill()
	r.crashes++
	r.torn = "between"
	how, cutAt, _ := strings.Cut(how, "@")
	switch {
	case how == "kill-partial" && point == "append.before" && line != "":
		f, err := os.OpenFile(path, os.O_APPEND|os.O_WRONLY, 0o644)
		if err == nil {
			cut := len(line) / 2
			// when the line holds multi-byte characters, die inside one of them
			for i := 0; i < len(line); i++ {
				if line[i] >= 0x80 && i+1 < len(line) && line[i+1] >= 0x80 && line[i+1] < 0xc0 {
					cut = i + 1
					break
				}
			}
			nl := strings.IndexByte(line, '\n')
			switch cutAt {
			case "one":
				cut = 1
			case "brace":
				// "...}}\n": keep everything up to and including the inner brace
				if nl >= 2 && line[nl-1] == '}' && line[nl-2] == '}' {
					cut = nl - 1
				}
			case "quote":
				if i := strings.LastIndexByte(line[:cut+1], '"'); i > 0 {
					cut = i + 1
				}
			case "line2":
				if nl >= 0 && nl+1 < len(line) {
					cut = nl + 1 + (len(line)-nl-1)/2
				}
			}
			_, _ = f.WriteString(line[:cut])
			f.Close()
		}
		r.torn = "partial"
	case how == "kill-full" && point == "append.before" && line != "":
		f, err := os.OpenFile(path, os.O_APPEND|os.O_WRONLY, 0o644)
		if err == nil {
			_, _ = f.WriteString(strings.TrimSuffix(line, "\n"))
			f.Close()
		}
		r.torn = "full"
	case how == "kill-partial" && point == "tmp.before":
		_ = os.WriteFile(path, []byte(`{"type":"new_task","ts":"2026-01-01T00:00:00Z","data":{"id":"AB`), 0o644)
		r.torn = "partial"
	}
}

// realise runs one schedule and returns the observed history.
func (e *Env) realise(tag string, scn Scenario, sched [][]string, workdir string, only []string) (*Obs, error) {
	st, err := newStore(e.Ergo, workdir)
	if err != nil {
		return nil, err
	}
	defer os.RemoveAll(workdir)
	if err := writeCraftedLog(st, scn.Init); err != nil {
		return nil, err
	}
	if scn.Legacy {
		if err := os.Rename(filepath.Join(st.ErgoDir(), "plans.jsonl"), filepath.Join(st.ErgoDir(), "events.jsonl")); err != nil {
			return nil, err
		}
	}
	if scn.NoLock {
		_ = os.Remove(filepath.Join(st.ErgoDir(), "lock"))
	}
	if scn.NoLog {
		_ = os.Remove(filepath.Join(st.ErgoDir(), "plans.jsonl"))
	}
	ids := newIDMap()
	rawPre := st.readLog()
	plPre := parseLog(rawPre, ids, true)
	pre := st.observe(ids)
	sockDir, err := os.MkdirTemp(e.Scratch, "s")
	if err != nil {
		return nil, err
	}
	defer os.RemoveAll(sockDir)
	ctl, err := newCtl(sockDir)
	if err != nil {
		return nil, err
	}
	defer ctl.Close()
	r := &runner{e: e, scn: scn, st: st, ids: ids, ctl: ctl, procs: map[string]*Proc{}, inLock: map[string]bool{}, scanned: map[string]bool{}, rsteps: map[string]int{},
		rwin: map[string][2]int{}, torn: "none"}
	r.snapshot()
	for _, s := range sched {
		if len(s) != 2 {
			continue
		}
		if s[1] == "step" {
			r.advance(s[0])
		} else {
			r.kill(s[0], s[1])
		}
		r.snapshot()
	}
	// run everything to completion, writers first
	var names []string
	for n := range scn.Cmds {
		names = append(names, n)
	}
	sort.Strings(names)
	rnames := append([]string{}, scn.Readers...)
	sort.Strings(rnames)
	for _, n := range append(names, rnames...) {
		p := r.ensure(n)
		if !p.Exited() {
			res := p.Finish()
			if res.TimedOut {
				r.timeouts++
			}
		}
		if r.isReader(n) {
			r.closeReader(n)
		}
		r.snapshot()
	}
	rawPost := st.readLog()
	plPost := parseLog(rawPost, ids, true)
	post := st.observe(ids)
	rk := newRanker()
	rk.addView(pre.View)
	rk.addView(post.View)
	rk.addLog(plPre)
	rk.addLog(plPost)
	tab := rk.table()
	o := &Obs{Tag: tag, Cmd: Cmd{"name": "conc", "mode": "json", "scenario": scn.Name, "schedule": sched}, Exit: 0,
		Reply: Reply{IDs: []string{}, Edges: [][2]string{}, Pruned: []string{}},
		Out:   outFacts{JSON: true, Values: 1}, Readable: pre.Readable && post.Readable, ListShow: true,
		Pre: rankView(pre.View, tab), Post: rankView(post.View, tab), LogPre: rankLog(plPre, tab), LogPost: rankLog(plPost, tab),
		Gone: []string{}, Facts: map[string]any{}, Only: only, Procs: []procRec{}, Readers: []readerRec{}, After: []afterRec{}}
	for _, n := range names {
		p := r.procs[n]
		c := r.cmdOf(n)
		res := p.Result()
		pr := procRec{Name: n, Cmd: c, Exit: res.Exit, Killed: p.Killed, Inv: p.Inv, Res: p.Res,
			Busy: strings.Contains(string(res.Stderr), "lock busy"), stderr: string(res.Stderr), trail: p.Trail}
		if p.Killed {
			pr.Exit = 137
		}
		pr.Reply = parseReply(c, res.Stdout, ids)
		if nm := c.name(); nm == "new_task" || nm == "new_epic" {
			if pr.Reply.ID != "" {
				c["newids"] = []string{pr.Reply.ID}
			}
		} else if nm == "plan" && pr.Reply.ID != "" {
			c["newids"] = append([]string{pr.Reply.ID}, pr.Reply.IDs...)
		}
		pr.Cmd = c
		o.Procs = append(o.Procs, pr)
	}
	// a creating command that printed no reply (killed, failed): its fresh ids
	// are the create events nobody else accounts for
	{
		had := map[string]bool{}
		for _, ev := range plPre.events {
			if t := ev["type"]; t == "new_task" || t == "new_epic" {
				had[fmt.Sprint(ev["id"])] = true
			}
		}
		for _, pr := range o.Procs {
			for _, id := range pr.Cmd.strs("newids") {
				if pr.Reply.ID != "" {
					had[id] = true
				}
			}
		}
		var fresh []string
		for _, ev := range plPost.events {
			if t := ev["type"]; (t == "new_task" || t == "new_epic") && !had[fmt.Sprint(ev["id"])] {
				fresh = append(fresh, fmt.Sprint(ev["id"]))
				had[fmt.Sprint(ev["id"])] = true
			}
		}
		silent := -1
		count := 0
		for i, pr := range o.Procs {
			if nm := pr.Cmd.name(); (nm == "new_task" || nm == "new_epic" || nm == "plan") && pr.Reply.ID == "" {
				silent = i
				count++
			}
		}
		if count == 1 && len(fresh) > 0 {
			o.Procs[silent].Cmd["newids"] = fresh
		}
	}
	for _, n := range rnames {
		p := r.procs[n]
		res := p.Result()
		rr := readerRec{Kind: r.scn.RKind, RID: r.scn.RID, Name: n, Exit: res.Exit, Items: []map[string]any{}, Snaps: [][]map[string]any{}, err: string(res.Stderr)}
		var items []listItem
		if r.scn.RKind == "show" {
			var wrap struct {
				Epic     *showOut  `json:"epic"`
				Children []showOut `json:"children"`
			}
			var single showOut
			var all []showOut
			if json.Unmarshal(res.Stdout, &wrap) == nil && wrap.Epic != nil {
				all = append([]showOut{*wrap.Epic}, wrap.Children...)
			} else if json.Unmarshal(res.Stdout, &single) == nil && single.ID != "" {
				all = []showOut{single}
			} else if res.Exit == 0 {
				rr.Exit = 3
			}
			for _, it := range all {
				rr.Items = append(rr.Items, map[string]any{"id": ids.model(it.ID), "state": it.State, "claim": it.ClaimedBy,
					"epic": ids.model(it.EpicID), "title": it.Title})
			}
		} else if json.Unmarshal(res.Stdout, &items) == nil {
			for _, it := range items {
				rr.Items = append(rr.Items, map[string]any{"id": ids.model(it.ID), "state": it.State, "claim": it.ClaimedBy,
					"epic": ids.model(it.EpicID), "title": it.Title, "ready": it.Ready, "blocked": it.Blocked})
			}
		} else if res.Exit == 0 {
			rr.Exit = 3 // printed something that is not a JSON list
		}
		w := r.rwin[n]
		if w[1] < 0 {
			w[1] = len(r.snaps) - 1
		}
		if w[0] < 0 {
			w[0] = 0
		}
		for k := w[0]; k <= w[1] && k < len(r.snaps); k++ {
			rr.Snaps = append(rr.Snaps, r.snaps[k])
		}
		o.Readers = append(o.Readers, rr)
	}
	o.Facts["crashes"] = r.crashes
	o.Facts["torn"] = r.torn
	o.Facts["log_ok"] = plPost.ok
	o.Facts["all_exited"] = r.timeouts == 0
	o.Facts["readable_after_crash"] = post.Readable
	o.obsErr = post.Err
	if r.crashes > 0 {
		o.After = continuation(st, ids)
	}
	return o, nil
}

// continuation: after a crash, later commands must keep working.
func continuation(st *Store, ids *IDMap) []afterRec {
	var out []afterRec
	sp := &Stepper{St: st, IDs: ids, Gone: map[string]bool{}}
	step := func(c Cmd, mutation bool, effect func(o *Obs) bool) {
		o := sp.step(c, "after")
		ar := afterRec{Cmd: o.Cmd, Exit: o.Exit, Readable: o.rawPost.Readable, Mutation: mutation, View: o.Post}
		ar.InEffect = !mutation || (o.Exit == 0 && effect(o))
		if ar.View == nil {
			ar.View = map[string]any{}
		}
		out = append(out, ar)
	}
	step(Cmd{"name": "list", "mode": "json"}, false, nil)
	// (people re-run `init` when something looks wrong: it must not make it worse)
	step(Cmd{"name": "init", "mode": "json"}, false, nil)
	step(cNewTask("title", "after crash"), true, func(o *Obs) bool { _, ok := o.Post[o.Reply.ID]; return ok && o.Reply.ID != "" })
	var newID string
	if len(out) > 0 {
		for id := range out[len(out)-1].View {
			if _, had := out[1].View[id]; !had {
				newID = id
			}
		}
	}
	if newID != "" {
		step(cSet(newID, "state", "done"), true, func(o *Obs) bool {
			it, ok := o.Post[newID].(viewItem)
			return ok && it.State == "done"
		})
	}
	step(cCompact(), true, func(o *Obs) bool { return true })
	step(Cmd{"name": "list", "mode": "json"}, false, nil)
	return out
}

// driveProc realises every (state, enabled step) pair emitted by TLC.
func (e *Env) driveProc(tag string, table map[string]Scenario, states []procState, only []string, workers int, maxRuns int, seed int64) ([]*Obs, int, error) {
	type job struct {
		scn   Scenario
		sched [][]string
	}
	var jobs []job
	for _, st := range states {
		scn, ok := table[st.Scn]
		if !ok {
			return nil, 0, fatalf("TLC emitted unknown scenario %q", st.Scn)
		}
		scn.Name = st.Scn
		for _, nx := range st.Next {
			sched := append(append([][]string{}, st.Sched...), nx)
			jobs = append(jobs, job{scn, sched})
		}
		if len(st.Next) == 0 {
			jobs = append(jobs, job{scn, st.Sched})
		}
	}
	total := len(jobs)
	if maxRuns > 0 && len(jobs) > maxRuns {
		rng := newRand(seed)
		jobs = sample(jobs, maxRuns, rng)
	}
	var mu sync.Mutex
	var all []*Obs
	var firstErr atomic.Value
	ch := make(chan int)
	var wg sync.WaitGroup
	for w := 0; w < workers; w++ {
		wg.Add(1)
		go func(w int) {
			defer wg.Done()
			for i := range ch {
				if firstErr.Load() != nil {
					continue
				}
				dir := filepath.Join(e.Scratch, fmt.Sprintf("%s-w%d-%d", tag, w, i))
				o, err := e.realise(tag, jobs[i].scn, jobs[i].sched, dir, only)
				if err != nil {
					firstErr.Store(err)
					continue
				}
				mu.Lock()
				all = append(all, o)
				mu.Unlock()
			}
		}(w)
	}
	for i := range jobs {
		ch <- i
	}
	close(ch)
	wg.Wait()
	if v := firstErr.Load(); v != nil {
		return nil, total, v.(error)
	}
	return all, total, nil
}

// storm: N real processes started together with no gating at all (the OS picks
// the schedule); the observed replies and final state must still be explained
// by some serial order of the commands that reported success.
func (e *Env) storm(tag string, scn Scenario, cmds []Cmd, workdir string, only []string) (*Obs, error) {
	st, err := newStore(e.Ergo, workdir)
	if err != nil {
		return nil, err
	}
	defer os.RemoveAll(workdir)
	if err := writeCraftedLog(st, scn.Init); err != nil {
		return nil, err
	}
	ids := newIDMap()
	rawPre := st.readLog()
	plPre := parseLog(rawPre, ids, true)
	pre := st.observe(ids)
	type res struct {
		r RunResult
		c Cmd
	}
	results := make([]res, len(cmds))
	var wg sync.WaitGroup
	start := make(chan struct{})
	for i, c := range cmds {
		c := complete(c)
		args, stdin := invocation(c, ids)
		wg.Add(1)
		go func(i int) {
			defer wg.Done()
			<-start
			results[i] = res{st.run(stdin, nil, args...), c}
		}(i)
	}
	close(start)
	wg.Wait()
	rawPost := st.readLog()
	plPost := parseLog(rawPost, ids, true)
	post := st.observe(ids)
	rk := newRanker()
	rk.addView(pre.View)
	rk.addView(post.View)
	rk.addLog(plPre)
	rk.addLog(plPost)
	tab := rk.table()
	o := &Obs{Tag: tag, Cmd: Cmd{"name": "conc", "mode": "json", "scenario": scn.Name + "-storm", "schedule": "uncontrolled"}, Exit: 0,
		Reply: Reply{IDs: []string{}, Edges: [][2]string{}, Pruned: []string{}},
		Out:   outFacts{JSON: true, Values: 1}, Readable: pre.Readable && post.Readable, ListShow: true, Faithful: true,
		Pre: rankView(pre.View, tab), Post: rankView(post.View, tab), LogPre: rankLog(plPre, tab), LogPost: rankLog(plPost, tab),
		Gone: []string{}, Facts: map[string]any{}, Only: only, Procs: []procRec{}, Readers: []readerRec{}, After: []afterRec{}}
	timeouts := 0
	for i, rs := range results {
		c := rs.c
		pr := procRec{Name: fmt.Sprintf("p%d", i+1), Cmd: c, Exit: rs.r.Exit, Inv: 1, Res: 0,
			Busy: strings.Contains(string(rs.r.Stderr), "lock busy"), stderr: string(rs.r.Stderr)}
		if rs.r.TimedOut {
			timeouts++
		}
		pr.Reply = parseReply(c, rs.r.Stdout, ids)
		if nm := c.name(); (nm == "new_task" || nm == "new_epic") && pr.Reply.ID != "" {
			c["newids"] = []string{pr.Reply.ID}
		} else if nm == "plan" && pr.Reply.ID != "" {
			c["newids"] = append([]string{pr.Reply.ID}, pr.Reply.IDs...)
		}
		pr.Cmd = c
		o.Procs = append(o.Procs, pr)
	}
	o.Facts["crashes"] = 0
	o.Facts["torn"] = "none"
	o.Facts["log_ok"] = plPost.ok
	o.Facts["all_exited"] = timeouts == 0
	o.Facts["readable_after_crash"] = post.Readable
	return o, nil
}

// storms runs `rounds` uncontrolled runs per scenario, each with `n` commands
// drawn (with repetition, fresh agents) from the scenario's own commands.
func (e *Env) storms(table map[string]Scenario, names []string, rounds, n int, only []string, seed int64) ([]*Obs, error) {
	rng := newRand(seed)
	var all []*Obs
	for _, name := range names {
		scn, ok := table[name]
		if !ok {
			continue
		}
		scn.Name = name
		var pool []Cmd
		var keys []string
		for k := range scn.Cmds {
			keys = append(keys, k)
		}
		sort.Strings(keys)
		for _, k := range keys {
			pool = append(pool, scn.Cmds[k])
		}
		for r := 0; r < rounds; r++ {
			var cmds []Cmd
			for i := 0; i < n; i++ {
				c := complete(pool[rng.Intn(len(pool))])
				if c.name() == "claim" || c.name() == "claim_id" {
					c["agent"] = fmt.Sprintf("s%d", i+1)
				}
				cmds = append(cmds, c)
			}
			o, err := e.storm("e3s", scn, cmds, filepath.Join(e.Scratch, fmt.Sprintf("storm-%s-%d", name, r)), only)
			if err != nil {
				return nil, err
			}
			all = append(all, o)
		}
	}
	return all, nil
}
