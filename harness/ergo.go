package main

// Driving the real binary: stores, invocations, observation and the projection
// of what was observed onto the specification's vocabulary.  This file parses
// and renames; it evaluates no property.

import (
	"bytes"
	"context"
	"crypto/sha256"
	"encoding/json"
	"fmt"
	"io"
	"net/url"
	"os"
	"os/exec"
	"path/filepath"
	"regexp"
	"sort"
	"strings"
	"syscall"
	"time"
)

const Absent = "<absent>"

type Store struct {
	Root string // project root; .ergo below it
	Bin  string
	// StdinPieces > 1: stdin is delivered in that many writes with short pauses between
	// them (a producer that prints as it goes), not in one
	StdinPieces int
}

// rewrite replaces the content of a result file and puts its modification time back
// (what `cp -p` or a build tool that restores timestamps does).
func (s *Store) rewrite(rel string) {
	p := filepath.Join(s.Root, rel)
	info, err := os.Stat(p)
	if err != nil {
		return
	}
	old, _ := os.ReadFile(p)
	_ = os.WriteFile(p, append([]byte("revised: "), old...), 0o644)
	_ = os.Chtimes(p, info.ModTime(), info.ModTime())
	f, err := os.OpenFile(filepath.Join(s.Root, ".verif-rewritten"), os.O_APPEND|os.O_CREATE|os.O_WRONLY, 0o644)
	if err == nil {
		fmt.Fprintf(f, "%s\t%s\n", rel, time.Now().UTC().Format(time.RFC3339Nano))
		f.Close()
	}
}

// rewritten: when the file was last replaced by `rewrite`, if ever
func (s *Store) rewritten(rel string) (time.Time, bool) {
	b, err := os.ReadFile(filepath.Join(s.Root, ".verif-rewritten"))
	if err != nil {
		return time.Time{}, false
	}
	var at time.Time
	found := false
	for _, l := range strings.Split(string(b), "\n") {
		if p, ts, ok := strings.Cut(l, "\t"); ok && p == rel {
			if t, err := time.Parse(time.RFC3339Nano, ts); err == nil {
				at, found = t, true
			}
		}
	}
	return at, found
}

func (s *Store) ErgoDir() string { return filepath.Join(s.Root, ".ergo") }
func (s *Store) LogPath() string {
	p := filepath.Join(s.ErgoDir(), "plans.jsonl")
	if _, err := os.Stat(p); err == nil {
		return p
	}
	q := filepath.Join(s.ErgoDir(), "events.jsonl")
	if _, err := os.Stat(q); err == nil {
		return q
	}
	return p
}

type RunResult struct {
	Exit     int
	Stdout   []byte
	Stderr   []byte
	TimedOut bool
	Dur      time.Duration
}

var invocations int64

// run executes ergo in the store's root directory.
func (s *Store) run(stdin []byte, env []string, args ...string) RunResult {
	return s.runIn(s.Root, stdin, env, 20*time.Second, args...)
}

func (s *Store) runIn(dir string, stdin []byte, env []string, timeout time.Duration, args ...string) RunResult {
	ctx, cancel := context.WithTimeout(context.Background(), timeout)
	defer cancel()
	cmd := exec.CommandContext(ctx, s.Bin, args...)
	cmd.Dir = dir
	cmd.Env = append([]string{"HOME=" + s.Root, "PATH=/usr/bin:/bin", "NO_COLOR=1"}, env...)
	if stdin != nil && s.StdinPieces > 1 && len(stdin) >= s.StdinPieces {
		if w, err := cmd.StdinPipe(); err == nil {
			n := s.StdinPieces
			go func() {
				defer w.Close()
				for k := 0; k < n; k++ {
					lo, hi := len(stdin)*k/n, len(stdin)*(k+1)/n
					if _, err := w.Write(stdin[lo:hi]); err != nil {
						return
					}
					time.Sleep(25 * time.Millisecond)
				}
			}()
		}
	} else if stdin != nil {
		cmd.Stdin = bytes.NewReader(stdin)
	} else {
		f, _ := os.Open(os.DevNull)
		defer f.Close()
		cmd.Stdin = f
	}
	var so, se bytes.Buffer
	cmd.Stdout, cmd.Stderr = &so, &se
	cmd.SysProcAttr = &syscall.SysProcAttr{Setpgid: true}
	t0 := time.Now()
	err := cmd.Run()
	r := RunResult{Stdout: so.Bytes(), Stderr: se.Bytes(), Dur: time.Since(t0)}
	if ctx.Err() != nil {
		r.TimedOut = true
		r.Exit = -1
		return r
	}
	if err != nil {
		if ee, ok := err.(*exec.ExitError); ok {
			r.Exit = ee.ExitCode()
		} else {
			r.Exit = -2
		}
	}
	return r
}

func newStore(bin, root string) (*Store, error) {
	if err := os.MkdirAll(root, 0o755); err != nil {
		return nil, err
	}
	s := &Store{Root: root, Bin: bin}
	r := s.run(nil, nil, "init")
	if r.Exit != 0 || !fileExists(filepath.Join(root, ".ergo", "lock")) {
		// the store is only scaffolding here (C18 judges `init` itself): build it by hand
		_ = os.MkdirAll(filepath.Join(root, ".ergo"), 0o755)
		for _, f := range []string{"plans.jsonl", "lock"} {
			if !fileExists(filepath.Join(root, ".ergo", f)) {
				_ = os.WriteFile(filepath.Join(root, ".ergo", f), nil, 0o644)
			}
		}
	}
	// files that result attachments refer to
	_ = os.WriteFile(filepath.Join(root, "r1.txt"), []byte("result one\n"), 0o644)
	_ = os.WriteFile(filepath.Join(root, "r2.txt"), []byte("result two\n"), 0o644)
	_ = os.MkdirAll(filepath.Join(root, "sub"), 0o755)
	_ = os.WriteFile(filepath.Join(root, "sub", "r3.txt"), []byte("result three\n"), 0o644)
	for _, n := range []string{"my file.txt", "a#b.txt", "q?x=1.txt", "p%20c.txt", "100%.txt"} {
		_ = os.WriteFile(filepath.Join(root, n), []byte("named "+n+"\n"), 0o644)
	}
	_ = os.WriteFile(filepath.Join(filepath.Dir(root), "out.txt"), []byte("outside\n"), 0o644)
	_ = syscall.Mkfifo(filepath.Join(root, "pipe.fifo"), 0o644)
	return s, nil
}

func fileExists(p string) bool { _, err := os.Stat(p); return err == nil }

func (s *Store) clone(root string) (*Store, error) {
	if err := copyDir(s.Root, root); err != nil {
		return nil, err
	}
	return &Store{Root: root, Bin: s.Bin}, nil
}

func (s *Store) readLog() []byte {
	b, _ := os.ReadFile(s.LogPath())
	return b
}

// ---------------------------------------------------------------------------
// id renaming

type IDMap struct {
	toModel map[string]string
	toReal  map[string]string
	n       int
}

func newIDMap() *IDMap { return &IDMap{toModel: map[string]string{}, toReal: map[string]string{}} }

func (m *IDMap) copy() *IDMap {
	c := newIDMap()
	for k, v := range m.toModel {
		c.toModel[k] = v
	}
	for k, v := range m.toReal {
		c.toReal[k] = v
	}
	c.n = m.n
	return c
}

func (m *IDMap) learn(real string) string {
	if real == "" {
		return ""
	}
	if v, ok := m.toModel[real]; ok {
		return v
	}
	m.n++
	v := fmt.Sprintf("i%d", m.n)
	m.toModel[real] = v
	m.toReal[v] = real
	return v
}

// model renames a real id; ids never seen in a create event keep their spelling
func (m *IDMap) model(real string) string {
	if v, ok := m.toModel[real]; ok {
		return v
	}
	return real
}

func (m *IDMap) real(model string) string {
	if v, ok := m.toReal[model]; ok {
		return v
	}
	if strings.HasPrefix(model, "lc:") {
		return strings.ToLower(m.real(strings.TrimPrefix(model, "lc:")))
	}
	if strings.HasPrefix(model, "pad:") {
		return m.real(strings.TrimPrefix(model, "pad:")) + " "
	}
	if model == "zz" {
		return "ZZZZZZ"
	}
	if strings.HasPrefix(model, "i") {
		return "QQQQ" + strings.ToUpper(strings.TrimPrefix(model, "i")) + "Q" // an id that does not exist
	}
	return model
}

// ---------------------------------------------------------------------------
// the log, abstracted

type rawEvent struct {
	Type string          `json:"type"`
	TS   string          `json:"ts"`
	Data json.RawMessage `json:"data"`
}

type absEvent map[string]any

type parsedLog struct {
	events []absEvent // with "ts" still a time string under key "_ts"
	lines  int
	ok     bool // every non-blank line parsed
	torn   bool // the file ends in a fragment without newline
}

// abstractText maps concretised text back to the token the specification uses
func abstractText(v string) string {
	if len(v) > 4096 {
		if v == bigBody {
			return "BIG"
		}
		if v == midBody {
			return "MID"
		}
		return fmt.Sprintf("LONG#%d#%08x", len(v), fnv(v))
	}
	if v == uniTitle {
		return "UNI"
	}
	if v == "\u00a0\u3000\u00a0" {
		return "UBLANK"
	}
	return v
}

func parseLog(raw []byte, ids *IDMap, learn bool) parsedLog {
	var pl parsedLog
	pl.ok = true
	allLines := bytes.Split(raw, []byte("\n"))
	if learn {
		// ids are learnt first: in a hand-merged log an item's other events may precede its creation
		for _, line := range allLines {
			var ev rawEvent
			if json.Unmarshal(bytes.TrimSpace(line), &ev) == nil && (ev.Type == "new_task" || ev.Type == "new_epic") {
				var d map[string]any
				_ = json.Unmarshal(ev.Data, &d)
				if id, ok := d["id"].(string); ok {
					ids.learn(id)
				}
			}
		}
	}
	for li, line := range allLines {
		t := bytes.TrimSpace(line)
		if len(t) == 0 {
			continue
		}
		pl.lines++
		var ev rawEvent
		if err := json.Unmarshal(t, &ev); err != nil {
			if li == len(allLines)-1 && !bytes.HasSuffix(raw, []byte("\n")) {
				// a torn tail (fragment without newline) is not an event
				pl.torn = true
				continue
			}
			pl.ok = false
			pl.events = append(pl.events, absEvent{"type": "<garbage>", "_ts": ""})
			continue
		}
		var d map[string]any
		_ = json.Unmarshal(ev.Data, &d)
		str := func(k string) string {
			if v, ok := d[k].(string); ok {
				return v
			}
			return ""
		}
		a := absEvent{"type": ev.Type}
		switch ev.Type {
		case "new_task", "new_epic":
			if learn {
				ids.learn(str("id"))
			}
			a["id"] = ids.model(str("id"))
			a["epic"] = ids.model(str("epic_id"))
			a["state"] = str("state")
			a["title"] = abstractText(str("title"))
			a["body"] = abstractText(str("body"))
			a["_ts"] = str("created_at")
		case "state":
			a["id"], a["state"], a["_ts"] = ids.model(str("id")), str("state"), str("ts")
		case "claim":
			a["id"], a["agent"], a["_ts"] = ids.model(str("id")), str("agent_id"), str("ts")
		case "unclaim":
			a["id"], a["_ts"] = ids.model(str("id")), str("ts")
		case "title":
			a["id"], a["text"], a["_ts"] = ids.model(str("id")), abstractText(str("title")), str("ts")
		case "body":
			a["id"], a["text"], a["_ts"] = ids.model(str("id")), abstractText(str("body")), str("ts")
		case "epic":
			a["id"], a["epic"], a["_ts"] = ids.model(str("id")), ids.model(str("epic_id")), str("ts")
		case "link", "unlink":
			a["from"], a["to"], a["_ts"] = ids.model(str("from_id")), ids.model(str("to_id")), ""
			if str("type") != "depends" {
				a["type"] = "<other-link>"
			}
		case "result":
			a["id"], a["summary"], a["path"], a["_ts"] = ids.model(str("task_id")), str("summary"), str("path"), str("ts")
		case "tombstone":
			a["id"], a["_ts"] = ids.model(str("id")), str("ts")
		default:
			a["_ts"] = ""
		}
		pl.events = append(pl.events, a)
	}
	return pl
}

// ---------------------------------------------------------------------------
// views

type obsResult struct {
	Summary string `json:"summary"`
	Path    string `json:"path"`
	TS      any    `json:"ts"`
	sha     string
	url     string
}

type viewItem struct {
	Kind      string      `json:"kind"`
	State     string      `json:"state"`
	Claim     string      `json:"claim"`
	Epic      string      `json:"epic"`
	Title     string      `json:"title"`
	Body      string      `json:"body"`
	Deps      []string    `json:"deps"`
	RDeps     []string    `json:"rdeps"`
	Results   []obsResult `json:"results"`
	Ready     bool        `json:"ready"`
	Blocked   bool        `json:"blocked"`
	Created   any         `json:"created"`
	Updated   any         `json:"updated"`
	ClaimedAt any         `json:"claimed_at"`
}

type View map[string]*viewItem

type showOut struct {
	ID        string `json:"id"`
	UUID      string `json:"uuid"`
	EpicID    string `json:"epic_id"`
	State     string `json:"state"`
	ClaimedBy string `json:"claimed_by"`
	ClaimedAt string `json:"claimed_at"`
	CreatedAt string `json:"created_at"`
	UpdatedAt string `json:"updated_at"`
	Deps      []string
	RDeps     []string
	Title     string `json:"title"`
	Body      string `json:"body"`
	Results   []struct {
		Summary   string `json:"summary"`
		Path      string `json:"path"`
		FileURL   string `json:"file_url"`
		Sha       string `json:"sha256_at_attach"`
		CreatedAt string `json:"created_at"`
	} `json:"results"`
}

type listItem struct {
	Kind      string `json:"kind"`
	ID        string `json:"id"`
	EpicID    string `json:"epic_id"`
	State     string `json:"state"`
	ClaimedBy string `json:"claimed_by"`
	Title     string `json:"title"`
	Ready     bool   `json:"ready"`
	Blocked   bool   `json:"blocked"`
}

// Observation of one store state.  Readable is false when any read command
// failed; Mismatch lists disagreements between list and show about one item.
type Observation struct {
	View     View
	Readable bool
	Err      string
	Mismatch []string
	Faithful bool              // every displayed result: sha256 = hash of the file, file_url = file:// + absolute path
	RawShow  map[string][]byte // model id -> raw `show --json` bytes
	RawList  []byte
	RawEpics []byte
	Hidden   []string // live tasks that some view leaves out: "<id>:children" (show --json <epic>), "<id>:human" (list --all)
}

func (s *Store) observe(ids *IDMap) Observation {
	o := Observation{View: View{}, Readable: true, Faithful: true, RawShow: map[string][]byte{}}
	fail := func(what string, r RunResult) Observation {
		o.Readable = false
		o.Err = fmt.Sprintf("%s: exit %d: %s", what, r.Exit, strings.TrimSpace(string(r.Stderr)))
		return o
	}
	ra := s.run(nil, nil, "--json", "list", "--all")
	if ra.Exit != 0 {
		return fail("list --all", ra)
	}
	re := s.run(nil, nil, "--json", "list", "--epics")
	if re.Exit != 0 {
		return fail("list --epics", re)
	}
	o.RawList, o.RawEpics = ra.Stdout, re.Stdout
	var tasks, epics []listItem
	if err := json.Unmarshal(ra.Stdout, &tasks); err != nil {
		o.Readable, o.Err = false, "list --all: bad JSON"
		return o
	}
	if err := json.Unmarshal(re.Stdout, &epics); err != nil {
		o.Readable, o.Err = false, "list --epics: bad JSON"
		return o
	}
	childrenOf := map[string]map[string]bool{}
	for _, li := range append(tasks, epics...) {
		mid := ids.model(li.ID)
		rs := s.run(nil, nil, "--json", "show", li.ID)
		if rs.Exit != 0 {
			return fail("show "+li.ID, rs)
		}
		o.RawShow[mid] = rs.Stdout
		var sh showOut
		var wrap struct {
			Epic     *showOut  `json:"epic"`
			Children []showOut `json:"children"`
		}
		if err := json.Unmarshal(rs.Stdout, &wrap); err == nil && wrap.Epic != nil {
			sh = *wrap.Epic
			childrenOf[li.ID] = map[string]bool{}
			for _, ch := range wrap.Children {
				childrenOf[li.ID][ch.ID] = true
			}
		} else if err := json.Unmarshal(rs.Stdout, &sh); err != nil {
			o.Readable, o.Err = false, "show: bad JSON"
			return o
		}
		it := &viewItem{Kind: li.Kind, State: sh.State, Claim: sh.ClaimedBy, Epic: ids.model(sh.EpicID),
			Title: abstractText(sh.Title), Body: abstractText(sh.Body), Ready: li.Ready, Blocked: li.Blocked,
			Created: sh.CreatedAt, Updated: sh.UpdatedAt, ClaimedAt: sh.ClaimedAt,
			Deps: []string{}, RDeps: []string{}, Results: []obsResult{}}
		for _, d := range sh.Deps {
			it.Deps = append(it.Deps, ids.model(d))
		}
		for _, d := range sh.RDeps {
			it.RDeps = append(it.RDeps, ids.model(d))
		}
		for _, r := range sh.Results {
			// a file whose content was replaced (pseudo-step `rewrite`) cannot vouch for
			// the attachments made before that
			stale := false
			if at, ok := s.rewritten(r.Path); ok {
				if t, err := time.Parse(time.RFC3339Nano, r.CreatedAt); err == nil && t.Before(at) {
					stale = true
				}
			}
			if stale {
				it.Results = append(it.Results, obsResult{Summary: r.Summary, Path: r.Path, TS: r.CreatedAt, sha: r.Sha, url: r.FileURL})
				continue
			}
			it.Results = append(it.Results, obsResult{Summary: r.Summary, Path: r.Path, TS: r.CreatedAt, sha: r.Sha, url: r.FileURL})
			abs := filepath.Join(s.Root, r.Path)
			if real, err := filepath.EvalSymlinks(s.Root); err == nil {
				abs = filepath.Join(real, r.Path)
			}
			if b, err := os.ReadFile(filepath.Join(s.Root, r.Path)); err == nil && r.Sha != strings.Repeat("0", 64) {
				u := url.URL{Scheme: "file", Path: abs}
				u2 := url.URL{Scheme: "file", Path: filepath.Join(s.Root, r.Path)}
				if fmt.Sprintf("%x", sha256.Sum256(b)) != r.Sha || (r.FileURL != u.String() && r.FileURL != u2.String()) {
					o.Faithful = false
				}
			}
		}
		if li.State != sh.State || li.ClaimedBy != sh.ClaimedBy || li.EpicID != sh.EpicID || li.Title != sh.Title || sh.ID != li.ID {
			o.Mismatch = append(o.Mismatch, mid)
		}
		if _, dup := o.View[mid]; dup {
			o.Mismatch = append(o.Mismatch, mid+":listed-twice")
		}
		o.View[mid] = it
	}
	// every live task is visible under its epic and in the human list of everything
	rh := s.run(nil, nil, "list", "--all")
	for _, li := range tasks {
		if li.EpicID != "" {
			if ch, ok := childrenOf[li.EpicID]; ok && !ch[li.ID] {
				o.Hidden = append(o.Hidden, ids.model(li.ID)+":children")
			}
		}
		if rh.Exit != 0 || !bytes.Contains(rh.Stdout, []byte(li.ID)) {
			o.Hidden = append(o.Hidden, ids.model(li.ID)+":human")
		}
	}
	return o
}

// ---------------------------------------------------------------------------
// ranks: timestamps -> small integers preserving order and equality

type ranker struct{ times map[string]time.Time }

func newRanker() *ranker { return &ranker{times: map[string]time.Time{}} }
func (r *ranker) add(s string) {
	if s == "" {
		return
	}
	if t, err := time.Parse(time.RFC3339Nano, s); err == nil {
		r.times[s] = t
	}
}
func (r *ranker) addView(v View) {
	for _, it := range v {
		for _, x := range []any{it.Created, it.Updated, it.ClaimedAt} {
			if s, ok := x.(string); ok {
				r.add(s)
			}
		}
		for _, res := range it.Results {
			if s, ok := res.TS.(string); ok {
				r.add(s)
			}
		}
	}
}
func (r *ranker) addLog(pl parsedLog) {
	for _, e := range pl.events {
		if s, ok := e["_ts"].(string); ok {
			r.add(s)
		}
	}
}
func (r *ranker) table() map[string]int {
	type kv struct {
		s string
		t time.Time
	}
	var all []kv
	for s, t := range r.times {
		all = append(all, kv{s, t})
	}
	sort.Slice(all, func(i, j int) bool { return all[i].t.Before(all[j].t) })
	out := map[string]int{}
	rank := 0
	var prev time.Time
	for i, x := range all {
		if i == 0 || !x.t.Equal(prev) {
			rank++
		}
		out[x.s] = rank
		prev = x.t
	}
	return out
}

func rankOf(tab map[string]int, x any) int {
	s, ok := x.(string)
	if !ok || s == "" {
		return 0
	}
	if n, ok := tab[s]; ok {
		return n
	}
	return -1 // unparsable timestamp
}

func rankView(v View, tab map[string]int) map[string]any {
	out := map[string]any{}
	for id, it := range v {
		c := *it
		c.Created, c.Updated, c.ClaimedAt = rankOf(tab, it.Created), rankOf(tab, it.Updated), rankOf(tab, it.ClaimedAt)
		c.Results = make([]obsResult, len(it.Results))
		for i, r := range it.Results {
			c.Results[i] = obsResult{Summary: r.Summary, Path: r.Path, TS: rankOf(tab, r.TS)}
		}
		sort.Strings(c.Deps)
		sort.Strings(c.RDeps)
		out[id] = c
	}
	return out
}

func rankLog(pl parsedLog, tab map[string]int) []map[string]any {
	out := make([]map[string]any, 0, len(pl.events))
	for _, e := range pl.events {
		m := map[string]any{}
		for k, v := range e {
			if k == "_ts" {
				m["ts"] = rankOf(tab, v)
				continue
			}
			m[k] = v
		}
		out = append(out, m)
	}
	return out
}

func tombstoned(pl parsedLog) []string {
	set := map[string]bool{}
	for _, e := range pl.events {
		if e["type"] == "tombstone" {
			if id, ok := e["id"].(string); ok {
				set[id] = true
			}
		}
	}
	var out []string
	for k := range set {
		out = append(out, k)
	}
	sort.Strings(out)
	return out
}

// ---------------------------------------------------------------------------
// output facts

var idShape = regexp.MustCompile(`^[A-Z2-7]{6}$`)

type outFacts struct {
	JSON     bool `json:"json"`
	Values   int  `json:"values"`
	Trailing bool `json:"trailing"`
	Stderr   bool `json:"stderr"`
	IDShape  bool `json:"idshape"`
}

// countJSONValues counts top-level JSON values on stdout; trailing reports
// bytes that are not part of a JSON value.
func countJSONValues(b []byte) (int, bool, []json.RawMessage) {
	dec := json.NewDecoder(bytes.NewReader(b))
	n := 0
	var vals []json.RawMessage
	for {
		var v json.RawMessage
		err := dec.Decode(&v)
		if err == io.EOF {
			return n, false, vals
		}
		if err != nil {
			return n, true, vals
		}
		n++
		vals = append(vals, v)
	}
}
