package main

// Hand-written histories: the minimal reproductions of the deviations of
// DESIGN.md §8 (so that a KNOWN-FINDING line, or its absence after a fix, does
// not depend on what a tier happens to sample) and a few corner cases.

func cNewTask(kv ...string) Cmd {
	c := Cmd{"name": "new_task", "mode": "json", "title": "T"}
	for i := 0; i+1 < len(kv); i += 2 {
		c[kv[i]] = kv[i+1]
	}
	return c
}
func cNewEpic(title string) Cmd { return Cmd{"name": "new_epic", "mode": "json", "title": title} }
func cSet(id string, kv ...string) Cmd {
	c := Cmd{"name": "set", "mode": "json", "id": id}
	for i := 0; i+1 < len(kv); i += 2 {
		c[kv[i]] = kv[i+1]
	}
	return c
}
func cSeq(ids ...string) Cmd { return Cmd{"name": "sequence", "mode": "json", "ids": ids} }
func cSeqRm(a, b string) Cmd { return Cmd{"name": "sequence_rm", "mode": "json", "a": a, "b": b} }
func cPrune() Cmd            { return Cmd{"name": "prune", "mode": "json", "yes": true} }
func cPruneDry() Cmd         { return Cmd{"name": "prune_dry", "mode": "json", "yes": false} }
func cCompact() Cmd          { return Cmd{"name": "compact", "mode": "json"} }
func cClaim(agent string) Cmd {
	return Cmd{"name": "claim", "mode": "json", "agent": agent, "epic": ""}
}
func cClaimID(id, a string) Cmd { return Cmd{"name": "claim_id", "mode": "json", "id": id, "agent": a} }
func cListReady() Cmd           { return Cmd{"name": "list_ready", "mode": "json", "epic": ""} }
func hist(cs ...Cmd) emitted    { return emitted{Hist: cs} }

// D10: task edge against epic edge: nothing is ready although only todo tasks exist
var probeD10 = []emitted{
	hist(cNewEpic("E1"), cNewEpic("E2"), cNewTask("title", "A", "epic", "i1"), cNewTask("title", "B", "epic", "i2"),
		cSeq("i1", "i2"), cSeq("i4", "i3"), cClaim("a1"), cListReady()),
	// entered through set epic
	hist(cNewEpic("E1"), cNewEpic("E2"), cNewTask("title", "A", "epic", "i1"), cNewTask("title", "B"),
		cSeq("i1", "i2"), cSeq("i4", "i3"), cSet("i4", "epic", "i2"), cClaim("a1")),
	// entered by creating a task inside an epic
	hist(cNewEpic("E0"), cNewEpic("E1"), cNewEpic("E2"), cSeq("i1", "i2"), cSeq("i2", "i3"),
		cNewTask("title", "W", "epic", "i1"), cNewTask("title", "X", "epic", "i3"), cSeq("i5", "i4"),
		cNewTask("title", "N", "epic", "i2"), cClaim("a1")),
}

// more ways into an effective waits-for cycle: the epic edge last; through a finished child that is reopened
var probeWaits = []emitted{
	hist(cNewEpic("E1"), cNewEpic("E2"), cNewTask("title", "c1", "epic", "i1"), cNewTask("title", "c2", "epic", "i2"),
		cSeq("i3", "i4"), cSeq("i2", "i1"), cClaim("a1"), cListReady()),
	hist(cNewEpic("E1"), cNewEpic("E2"), cNewTask("title", "c1", "epic", "i1"), cNewTask("title", "c2", "epic", "i2"),
		cSeq("i2", "i1"), cSet("i4", "state", "done"), cSeq("i3", "i4"), cSet("i4", "state", "todo"), cClaim("a1"), cListReady()),
	hist(cNewEpic("E1"), cNewEpic("E2"), cNewEpic("E3"), cNewTask("title", "c1", "epic", "i1"), cNewTask("title", "c2", "epic", "i2"), cNewTask("title", "c3", "epic", "i3"),
		cSeq("i1", "i2"), cSeq("i2", "i3"), cSeq("i6", "i4"), cClaim("a1")),
	hist(cNewEpic("E1"), cNewEpic("E2"), cNewTask("title", "c1", "epic", "i1"), cNewTask("title", "c2", "epic", "i2"),
		cSet("i3", "state", "canceled"), cSeq("i1", "i2"), cSeq("i4", "i3"), cSet("i3", "state", "todo"), cClaim("a1")),
}

// D3/D4: epic references that must be refused
var probeEpicRef = []emitted{
	hist(cNewTask("title", "A"), cNewTask("title", "B"), cSet("i2", "epic", "i1")),  // plain task as epic
	hist(cNewTask("title", "A"), cSet("i1", "epic", "zz")),                          // unknown id
	hist(cNewEpic("E"), cPrune(), cNewTask("title", "A"), cSet("i2", "epic", "i1")), // pruned epic
	hist(cNewTask("title", "A"), cNewTask("title", "B", "epic", "i1")),              // new task under a plain task
	hist(cNewEpic("E"), cNewTask("title", "A", "epic", "i1"), cNewTask("title", "B", "epic", "i2")),
}

// D5/D6/D7: multi-section commands that fail half-way
var probeHalf = []emitted{
	hist(cNewTask("title", "A", "state", "error")),                // todo -> error is illegal
	hist(cNewTask("title", "A", "state", "doing")),                // no agent: claim missing
	hist(cNewTask("title", "A", "state", "doing", "agent", "a1")), // succeeds: reply must tell the truth
	hist(cNewTask("title", "A", "claim", "a1")),
	hist(cNewTask("title", "A", "state", "done"), cSet("i1", "rsum", "s", "rpath", "r1.txt", "rclean", "r1.txt", "state", "doing")),
	hist(cNewTask("title", "A"), cNewTask("title", "B"), cNewTask("title", "C"), cSeq("i2", "i1"), cSeq("i1", "i3", "i2")),
	hist(cNewTask("title", "A"), cNewTask("title", "B"), cSeq("i1", "i2", "zz")),
}

// compaction corner cases: each history ends with compact, compact
var probeCompact = []emitted{
	hist(cNewEpic("E1"), cNewEpic("E2"), cNewTask("title", "A", "epic", "i1"), cSet("i3", "epic", "i2"), cPrune(), cCompact(), cCompact()),
	hist(cNewEpic("E1"), cNewTask("title", "A", "epic", "i1"), cSet("i2", "epic", ""), cPrune(), cCompact(), cCompact()),
	hist(cNewTask("title", "A"), cSet("i1", "title", "B"), cSet("i1", "title", "A"), cCompact(), cCompact()),
	hist(cNewTask("title", "A", "body", "x"), cSet("i1", "body", "y"), cSet("i1", "body", "x"), cCompact(), cCompact()),
	hist(cNewTask("title", "A"), cClaim("a1"), cSet("i1", "state", "todo"), cClaim("a2"), cSet("i1", "state", "done"), cSet("i1", "state", "todo"), cCompact(), cCompact(), cClaim("a3")),
	hist(cNewTask("title", "A", "state", "doing", "agent", "a1"), cSet("i1", "state", "error"), cCompact(), cSet("i1", "state", "doing"), cCompact()),
	hist(cNewTask("title", "A"), cNewTask("title", "B"), cSeq("i1", "i2"), cSet("i1", "state", "done"), cPrune(), cCompact(), cCompact(), cClaim("a1")),
	hist(cNewTask("title", "A"), cSet("i1", "rsum", "one", "rpath", "r1.txt", "rclean", "r1.txt"), cSet("i1", "rsum", "two", "rpath", "r1.txt", "rclean", "r1.txt"),
		cSet("i1", "rsum", "three", "rpath", "r2.txt", "rclean", "r2.txt"), cCompact(), cCompact()),
	hist(cNewEpic("E1"), cSet("i1", "title", "E1 renamed"), cSet("i1", "body", "epic body"), cCompact(), cCompact()),
	hist(cNewTask("title", "A"), cNewTask("title", "B"), cNewTask("title", "C"), cCompact(), cClaim("a1"), cClaim("a2"), cClaim("a3")),
	// what a crash inside the write of a two-event batch leaves behind (claimed but todo; doing but
	// unclaimed cannot arise: the claim line comes first) must survive compaction as it is
	hist(cNewTask("title", "A"), cNewTask("title", "B"), cClaim("a1"), cTear("cutlast"), cListReady(), cCompact(), cListReady(), cCompact(), cClaim("a2")),
	hist(cNewTask("title", "A"), cSet("i1", "state", "doing", "claim", "a1", "agent", "a1"), cSet("i1", "state", "blocked", "title", "A2"), cTear("cutlast"), cCompact(), cCompact()),
	// a line longer than the usual buffer sizes in the middle of shorter ones, across the whole-log writers
	hist(cNewTask("title", "A", "body", "short"), cSet("i1", "body", "MID"), cNewTask("title", "B"), cSet("i2", "title", "B2"), cCompact(), cListReady(), cCompact()),
	hist(cNewTask("title", "A", "body", "short"), cSet("i1", "body", "MID"), cSet("i1", "title", "A2"), cPlan("P", "x", "y"), cListReady(), cCompact()),
	// edges of every kind across a compaction: epic->epic, task->task inside and across epics
	hist(cNewEpic("E1"), cNewEpic("E2"), cNewTask("title", "A", "epic", "i1"), cNewTask("title", "B", "epic", "i2"), cSeq("i1", "i2"),
		cCompact(), cListReady(), cClaim("a1"), cClaim("a2"), cCompact()),
	hist(cNewEpic("E1"), cNewEpic("E2"), cNewEpic("E3"), cSeq("i1", "i2", "i3"), cNewTask("title", "A", "epic", "i3"), cNewTask("title", "B"),
		cSeq("i5", "i4"), cCompact(), cSeqRm("i1", "i2"), cCompact(), cCompact()),
}

// edges around prune / compact / removal
var probeEdges = []emitted{
	hist(cNewTask("title", "A"), cNewTask("title", "B"), cSeq("i1", "i2"), cSet("i2", "state", "done"), cPrune(), cCompact()),
	hist(cNewTask("title", "A"), cNewTask("title", "B"), cNewTask("title", "C"), cSeq("i1", "i2", "i3"), cSet("i2", "state", "canceled"), cPrune(), cSeqRm("i1", "i2")),
	hist(cNewTask("title", "A"), cNewTask("title", "B"), cSeq("i1", "i2"), cSeq("i1", "i2"), cSeqRm("i1", "i2"), cSeqRm("i1", "i2"), cSeq("i2", "i1")),
	hist(cNewEpic("E1"), cNewEpic("E2"), cSeq("i1", "i2"), cSeq("i2", "i1"), cNewTask("title", "A"), cSeq("i1", "i3"), cSeq("i3", "i1")),
}

// D14: the id source proposes pruned ids (forced through the verif id hook)
func reuse(c Cmd) Cmd { c["reuse_gone"] = true; return c }

var probeReissue = []emitted{
	hist(cNewTask("title", "A", "state", "done"), cNewTask("title", "B", "state", "canceled"), cPrune(), reuse(cNewTask("title", "C")), reuse(cNewEpic("E")), cListReady()),
	hist(cNewEpic("E"), cPrune(), reuse(Cmd{"name": "plan", "mode": "json", "doc": map[string]any{"title": "P", "tasks": []any{map[string]any{"title": "x"}}}})),
}

// whitespace-only agent names are names (C06): the claim must survive replay
var probeBlankAgents = []emitted{
	hist(cNewTask("title", "A"), cClaim(" "), cSet("i1", "state", "error"), cSet("i1", "state", "doing")),
	hist(cNewTask("title", "A"), cClaimID("i1", "\t"), cCompact(), cListReady()),
	hist(cNewTask("title", "A"), cSet("i1", "claim", "  "), cSet("i1", "state", "blocked"), cSet("i1", "state", "doing")),
	hist(cNewTask("title", "A", "state", "doing", "claim", "\u00a0"), cCompact()),
}

// claim order against id order (ids forced): the oldest task has the id that sorts last
func withID(c Cmd, id string) Cmd { c["forceids"] = []string{id}; return c }

var probeClaimOrder = []emitted{
	hist(withID(cNewTask("title", "oldest"), "ZZZZZZ"), withID(cNewTask("title", "middle"), "MMMMMM"), withID(cNewTask("title", "youngest"), "AAAAAA"),
		cListReady(), cCompact(), cClaim("a1"), cClaim("a2"), cClaim("a3")),
	hist(withID(cNewTask("title", "oldest"), "ZZZZZZ"), withID(cNewTask("title", "younger"), "AAAAAA"), cSet("i1", "body", "edited later"), cClaim("a1"), cClaim("a2")),
	hist(withID(cNewEpic("E"), "EEEEEE"), withID(cNewTask("title", "oldest", "epic", "i1"), "ZZZZZZ"), withID(cNewTask("title", "younger", "epic", "i1"), "BBBBBB"),
		withID(cNewTask("title", "outside"), "AAAAAA"), cCompact(), Cmd{"name": "claim", "mode": "json", "agent": "a1", "epic": "i1"}, cClaim("a2")),
}

// histories that continue after a torn tail (a writer died inside write(2))
func cTear(how string) Cmd { return Cmd{"name": "tear", "mode": "json", "how": how} }

var probeTorn = []emitted{
	hist(cNewTask("title", "A"), cNewTask("title", "B"), cTear("partial"), cSet("i1", "title", "renamed"), cListReady(), cSet("i2", "state", "done")),
	hist(cNewTask("title", "A"), cNewTask("title", "B"), cTear("partial"), cSet("i1", "state", "error"), cSet("i1", "body", "one event")),
	hist(cNewTask("title", "A"), cTear("partial"), cClaim("a1"), cSet("i1", "state", "done"), cPrune()),
	hist(cNewTask("title", "A"), cNewTask("title", "B"), cTear("full"), cSeq("i1", "i2"), cSeq("i2", "i1"), cCompact()),
	hist(cNewTask("title", "A"), cTear("partial"), cNewTask("title", "B"), cTear("partial"), cNewEpic("E"), cTear("full"), cSet("i1", "epic", "i3")),
	hist(cNewTask("title", "A"), cTear("partial"), Cmd{"name": "plan", "mode": "json", "doc": map[string]any{"title": "P", "tasks": []any{map[string]any{"title": "x"}}}}, cTear("partial"), cCompact(), cListReady()),
}

// plan with the id source proposing the same id twice (the epic's id must not be
// handed to one of its tasks) and ids of pruned items
func cPlan(title string, tasks ...string) Cmd {
	var ts []any
	for _, t := range tasks {
		ts = append(ts, map[string]any{"title": t})
	}
	return Cmd{"name": "plan", "mode": "json", "doc": map[string]any{"title": title, "tasks": ts}}
}
func withIDs(c Cmd, ids ...string) Cmd { c["forceids"] = ids; return c }

var probePlanIDs = []emitted{
	hist(withIDs(cPlan("P", "x", "y"), "QQQQQQ", "QQQQQQ", "RRRRRR", "RRRRRR", "SSSSSS"), cListReady(), cCompact()),
	hist(cNewTask("title", "A"), withIDs(cPlan("P", "x"), "QQQQQQ", "QQQQQQ", "QQQQQQ", "TTTTTT"), cSet("i1", "state", "done")),
	hist(cNewEpic("E"), cPrune(), reuse(cPlan("P", "x", "y", "z"))),
}

// id order against creation order: the moved task's id sorts before its new epic's id
var probeIDOrder = []emitted{
	hist(withID(cNewEpic("old"), "MMMMMM"), withID(cNewEpic("new"), "ZZZZZZ"), withID(cNewTask("title", "moved", "epic", "i1"), "AAAAAA"),
		cSet("i3", "epic", "i2"), cCompact(), cListReady(), cPrune(), cCompact()),
	hist(withID(cNewEpic("new"), "ZZZZZZ"), withID(cNewTask("title", "moved"), "AAAAAA"), cSet("i2", "epic", "i1"), cCompact(), cCompact(), cPrune()),
}

// commands that rewrite the whole log (plan, torn-tail repair, compact) after a
// prune: the history before them must survive as it was
var probeAfterPrune = []emitted{
	hist(cNewTask("title", "A", "state", "done"), cNewTask("title", "B"), cSeq("i1", "i2"), cPrune(), cNewTask("title", "C"),
		cPlan("P", "x", "y"), cSet("i3", "body", "later"), cListReady(), cCompact()),
	hist(cNewEpic("E"), cNewTask("title", "A", "epic", "i1", "state", "canceled"), cNewTask("title", "B"), cPrune(), cTear("partial"),
		cNewTask("title", "C"), cPlan("P", "x"), cListReady()),
	hist(cNewTask("title", "A", "state", "done"), cPrune(), cPlan("P", "x", "y"), cSet("i3", "state", "done"), cPrune(), cPlan("Q", "z"), cListReady()),
}

// the content of an attached file changes while its modification time does not
// (cp -p, a build that restores timestamps): the next attachment records the new hash
func cRewrite(path string) Cmd { return Cmd{"name": "rewrite", "mode": "json", "path": path} }
func cResult(id, sum, path string) Cmd {
	return cSet(id, "rsum", sum, "rpath", path, "rclean", path)
}

var probeEvidence = []emitted{
	hist(cNewTask("title", "A"), cResult("i1", "first", "r1.txt"), cRewrite("r1.txt"), cResult("i1", "second", "r1.txt"), cListReady(), cCompact()),
	hist(cNewTask("title", "A"), cNewTask("title", "B"), cResult("i1", "one", "r1.txt"), cResult("i2", "other task", "r1.txt"), cRewrite("r1.txt"),
		cResult("i2", "again", "r1.txt"), cResult("i1", "two", "r2.txt"), cRewrite("r2.txt"), cResult("i1", "three", "r2.txt"), cCompact(), cCompact()),
	// the same unchanged file attached twice: both attachments stay, also across compaction
	hist(cNewTask("title", "A"), cResult("i1", "first", "r1.txt"), cResult("i1", "second", "r1.txt"), cCompact(), cListReady(), cCompact()),
}

// sizes beyond the exhaustively explored models (round 6 of the seeded changes): many results on
// one task, many children in one epic behind an epic dependency, a chain of six epics
func cListEpic(e string) Cmd { return Cmd{"name": "list_epic", "mode": "json", "epic": e} }
func cClaimIn(e, a string) Cmd {
	return Cmd{"name": "claim", "mode": "json", "agent": a, "epic": e}
}

var probeManyResults = []emitted{
	hist(cNewTask("title", "A"), cResult("i1", "r1", "r1.txt"), cResult("i1", "r2", "r2.txt"), cResult("i1", "r3", "r1.txt"), cResult("i1", "r4", "sub/r3.txt"),
		cResult("i1", "r5", "r1.txt"), cResult("i1", "r6", "r2.txt"), cResult("i1", "r7", "r1.txt"), cResult("i1", "r8", "r2.txt"), cResult("i1", "r9", "r1.txt"),
		cResult("i1", "r10", "sub/r3.txt"), cListReady(), cCompact(), cResult("i1", "r11", "r2.txt"), cCompact()),
}

var probeManyChildren = []emitted{
	hist(cNewEpic("E1"), cNewEpic("E2"), cSeq("i1", "i2"), cNewTask("title", "open", "epic", "i1"),
		cNewTask("title", "c1", "epic", "i2"), cNewTask("title", "c2", "epic", "i2"), cNewTask("title", "c3", "epic", "i2"), cNewTask("title", "c4", "epic", "i2"),
		cNewTask("title", "c5", "epic", "i2"), cNewTask("title", "c6", "epic", "i2"), cNewTask("title", "c7", "epic", "i2"),
		cListEpic("i2"), cListReady(), cClaimIn("i2", "a1"), cSet("i3", "state", "done"), cListEpic("i2"), cClaimIn("i2", "a1")),
	// three epics in a row: the middle one finished, the first one not
	hist(cNewEpic("E1"), cNewEpic("E2"), cNewEpic("E3"), cSeq("i1", "i2", "i3"), cNewTask("title", "t1", "epic", "i1"), cNewTask("title", "t2", "epic", "i2"),
		cNewTask("title", "t3", "epic", "i3"), cSet("i5", "state", "done"), cListReady(), cClaimIn("i3", "a1"), cSet("i4", "state", "done"), cListReady(), cClaimIn("i3", "a2")),
}

var probeLongChains = []emitted{
	hist(cNewEpic("E1"), cNewEpic("E2"), cNewEpic("E3"), cNewEpic("E4"), cNewEpic("E5"), cNewEpic("E6"), cNewTask("title", "in E1", "epic", "i1"),
		cSeq("i1", "i2", "i3", "i4", "i5", "i6"), cSeq("i6", "i1"), cSeq("i6", "i7"), cListReady()),
	hist(cNewTask("title", "a"), cNewTask("title", "b"), cNewTask("title", "c"), cNewTask("title", "d"), cNewTask("title", "e"), cNewTask("title", "f"), cNewTask("title", "g"),
		cSeq("i1", "i2", "i3", "i4", "i5", "i6", "i7"), cSeq("i7", "i1"), cSeq("i1", "i2", "i3", "i4", "i5", "zz"), cSeq("i7", "i6", "i5", "i4", "i3", "i2", "i1"), cListReady()),
}

// the wall clock steps back between commands
func cClockBack() Cmd { return Cmd{"name": "clockback", "mode": "json"} }

var probeClockBack = []emitted{
	hist(cNewTask("title", "A"), cNewTask("title", "B"), cClockBack(), cClaim("a1"), cSet("i1", "title", "A2"), cSet("i2", "state", "done"), cListReady(), cCompact(), cListReady(), cCompact()),
	hist(cNewEpic("E"), cNewTask("title", "A", "epic", "i1"), cClockBack(), cSet("i2", "epic", ""), cSet("i2", "body", "later but earlier"), cResult("i2", "r", "r1.txt"), cCompact(), cCompact()),
}

// a long history (several hundred events), then every kind of read
func cGrow(id string, n int) Cmd { return Cmd{"name": "grow", "mode": "json", "id": id, "n": n} }

var probeLongHistory = []emitted{
	hist(cNewTask("title", "A"), cNewTask("title", "B"), cGrow("i1", 300), Cmd{"name": "list", "mode": "json"}, Cmd{"name": "list_all", "mode": "json"}, cListReady(),
		Cmd{"name": "show", "mode": "json", "id": "i1"}, cClaim("a1"), cSet("i2", "state", "done"), cPruneDry(), cCompact(), Cmd{"name": "list", "mode": "json"}),
}
