package main

// Environment: scratch directories, building ergo from /repo's working tree,
// running TLC.  Everything lives under one scratch directory that is removed
// on exit; nothing is kept under /tmp between runs.

import (
	"bytes"
	"context"
	"errors"
	"fmt"
	"os"
	"os/exec"
	"path/filepath"
	"regexp"
	"strconv"
	"strings"
	"time"
)

var (
	repoDir  = envOr("VERIF_REPO", "/repo")
	verifDir = envOr("VERIF_DIR", "/verif")
)

func envOr(k, d string) string {
	if v := os.Getenv(k); v != "" {
		return v
	}
	return d
}

type Env struct {
	Scratch string
	Ergo    string // path of the binary built with -tags verif
	Seed    int64
	Tier    string
	Start   time.Time
}

// machineryError is exit status 2: the check could not do its job.
type machineryError struct{ msg string }

func (e machineryError) Error() string { return e.msg }

func fatalf(format string, a ...any) error { return machineryError{fmt.Sprintf(format, a...)} }

func newEnv(tier string) (*Env, error) {
	seed := int64(1)
	if v := os.Getenv("VERIF_SEED"); v != "" {
		if n, err := strconv.ParseInt(v, 10, 64); err == nil {
			seed = n
		}
	}
	if t := os.Getenv("VERIF_TIER"); t != "" && tier == "" {
		tier = t
	}
	if tier == "" {
		tier = "quick"
	}
	base := os.Getenv("VERIF_SCRATCH")
	if base == "" {
		base = os.TempDir()
	}
	s, err := os.MkdirTemp(base, "ergo-verif-")
	if err != nil {
		return nil, err
	}
	return &Env{Scratch: s, Seed: seed, Tier: tier, Start: time.Now()}, nil
}

func (e *Env) Close() {
	if os.Getenv("VERIF_KEEP") != "" {
		fmt.Fprintln(os.Stderr, "keeping scratch", e.Scratch)
		return
	}
	_ = os.RemoveAll(e.Scratch)
}

// buildErgo builds /repo's current working tree with the hooks enabled.
func (e *Env) buildErgo() error {
	out := filepath.Join(e.Scratch, "bin", "ergo")
	if err := os.MkdirAll(filepath.Dir(out), 0o755); err != nil {
		return err
	}
	try := func(gobin string, extraEnv ...string) error {
		cmd := exec.Command(gobin, "build", "-tags", "verif", "-o", out, "./cmd/ergo")
		cmd.Dir = repoDir
		cmd.Env = append(cleanGoEnv(), extraEnv...)
		b, err := cmd.CombinedOutput()
		if err != nil {
			return fmt.Errorf("%s build: %v\n%s", gobin, err, b)
		}
		return nil
	}
	err := try("go")
	if err != nil {
		if err2 := try("go1.26", "GOTOOLCHAIN=local"); err2 != nil {
			return fatalf("cannot build /repo with -tags verif:\n%v\n%v", err, err2)
		}
	}
	e.Ergo = out
	return nil
}

func cleanGoEnv() []string {
	var env []string
	for _, kv := range os.Environ() {
		if strings.HasPrefix(kv, "GOFLAGS=") || strings.HasPrefix(kv, "GOPROXY=") ||
			strings.HasPrefix(kv, "GOTOOLCHAIN=") || strings.HasPrefix(kv, "GOSUMDB=") ||
			strings.HasPrefix(kv, "ERGO_VERIF_") {
			continue
		}
		env = append(env, kv)
	}
	return append(env, "GOFLAGS=-mod=mod", "GOPROXY=off")
}

// ---------------------------------------------------------------------------
// TLC

type TLCResult struct {
	Out         string
	Generated   int64
	Distinct    int64
	Depth       int
	NoError     bool
	Violated    []string // names of violated invariants / properties
	Lines       []string // payload of lines printed as "@ST ..."
	Tables      []string // payload of lines printed as "@SC ..."
	WallSeconds float64
	TimedOut    bool
}

var (
	reStates   = regexp.MustCompile(`(\d[\d,]*) states generated, (\d[\d,]*) distinct states found`)
	reDepth    = regexp.MustCompile(`depth of the complete state graph search is (\d+)`)
	reViolInv  = regexp.MustCompile(`Invariant (\S+) is violated`)
	reViolProp = regexp.MustCompile(`(?:Action property|Temporal property|property) (\S+) (?:is|was) violated`)
)

// runTLC copies the spec directory into a scratch work directory and runs TLC
// there.  module is e.g. "MC_Seq", cfg the text of the configuration.
func (e *Env) runTLC(name, module, cfg string, workers int, timeout time.Duration, extra ...string) (*TLCResult, error) {
	work := filepath.Join(e.Scratch, "tlc-"+name)
	if err := copyDir(filepath.Join(verifDir, "spec"), work); err != nil {
		return nil, err
	}
	return e.runTLCIn(work, name, module, cfg, workers, timeout, extra...)
}

func (e *Env) runTLCIn(work, name, module, cfg string, workers int, timeout time.Duration, extra ...string) (*TLCResult, error) {
	cfgPath := filepath.Join(work, name+".cfg")
	if err := os.WriteFile(cfgPath, []byte(cfg), 0o644); err != nil {
		return nil, err
	}
	args := []string{"-XX:+UseParallelGC", "-Xss64m"}
	if h := os.Getenv("VERIF_TLC_HEAP"); h != "" {
		args = append(args, "-Xmx"+h)
	}
	args = append(args, "-cp", "/opt/veriftools/tla/tla2tools.jar:/opt/veriftools/tla/CommunityModules-deps.jar",
		"tlc2.TLC", "-workers", strconv.Itoa(workers), "-metadir", filepath.Join(work, "meta-"+name),
		"-config", cfgPath)
	args = append(args, extra...)
	args = append(args, module+".tla")
	ctx, cancel := context.WithTimeout(context.Background(), timeout)
	defer cancel()
	cmd := exec.CommandContext(ctx, "java", args...)
	cmd.Dir = work
	var buf bytes.Buffer
	cmd.Stdout = &buf
	cmd.Stderr = &buf
	t0 := time.Now()
	err := cmd.Run()
	res := &TLCResult{Out: buf.String(), WallSeconds: time.Since(t0).Seconds()}
	if ctx.Err() != nil {
		res.TimedOut = true
	}
	for _, line := range strings.Split(res.Out, "\n") {
		if strings.HasPrefix(line, `"@ST `) {
			if s, uerr := strconv.Unquote(strings.TrimSpace(line)); uerr == nil {
				res.Lines = append(res.Lines, strings.TrimPrefix(s, "@ST "))
			}
		}
		if strings.HasPrefix(line, `"@SC `) {
			if s, uerr := strconv.Unquote(strings.TrimSpace(line)); uerr == nil {
				res.Tables = append(res.Tables, strings.TrimPrefix(s, "@SC "))
			}
		}
	}
	if m := reStates.FindAllStringSubmatch(res.Out, -1); len(m) > 0 {
		last := m[len(m)-1]
		res.Generated = atoi64(last[1])
		res.Distinct = atoi64(last[2])
	}
	if m := reDepth.FindStringSubmatch(res.Out); m != nil {
		res.Depth = int(atoi64(m[1]))
	}
	for _, m := range reViolInv.FindAllStringSubmatch(res.Out, -1) {
		res.Violated = append(res.Violated, m[1])
	}
	for _, m := range reViolProp.FindAllStringSubmatch(res.Out, -1) {
		res.Violated = append(res.Violated, m[1])
	}
	res.NoError = strings.Contains(res.Out, "Model checking completed. No error has been found.") ||
		(strings.Contains(res.Out, "Finished in") && !strings.Contains(res.Out, "Error:") && len(res.Violated) == 0)
	_ = err
	return res, nil
}

func atoi64(s string) int64 {
	n, _ := strconv.ParseInt(strings.ReplaceAll(s, ",", ""), 10, 64)
	return n
}

func tail(s string, n int) string {
	lines := strings.Split(s, "\n")
	if len(lines) > n {
		lines = lines[len(lines)-n:]
	}
	return strings.Join(lines, "\n")
}

func copyDir(src, dst string) error {
	return filepath.Walk(src, func(p string, info os.FileInfo, err error) error {
		if err != nil {
			return err
		}
		rel, _ := filepath.Rel(src, p)
		target := filepath.Join(dst, rel)
		if info.IsDir() {
			return os.MkdirAll(target, 0o755)
		}
		if info.Mode()&os.ModeSymlink != 0 {
			l, err := os.Readlink(p)
			if err != nil {
				return err
			}
			return os.Symlink(l, target)
		}
		if !info.Mode().IsRegular() {
			return nil
		}
		b, err := os.ReadFile(p)
		if err != nil {
			return err
		}
		return os.WriteFile(target, b, info.Mode().Perm())
	})
}

var errTimeout = errors.New("timeout")

func removeAll(p string) { _ = os.RemoveAll(p) }
