package main

// The process-layer properties (C01 C02 C03 C04 C13, concurrent half of C07).

import (
	"encoding/json"
	"fmt"
	"os"
	"time"
)

type ProcCheck struct {
	Prop         string
	Scenarios    string // operator of MC_Proc naming the scenario set
	MaxCrashes   int
	IdealInvs    []string
	Only         []string // clauses judged on every realised history
	MaxRunsQuick int
	Level        string
	Assumptions  []string
	Harvest      bool     // also validate the traces harvested from the repository's own test-suite (E6)
	Storms       []string // scenarios also run as uncontrolled storms of StormN processes
	StormN       int
	Also         []*ProcCheck // further scenario sets (other bounds) whose histories are judged together with these
}

func procCfg(dev, scenarios string, crashes int, emit string, invs []string) string {
	s := "SPECIFICATION Spec\nCONSTANTS\n  Dev = " + dev + "\n  Scenarios <- " + scenarios + "\n"
	s += "  MaxCrashes = " + itoa(crashes) + "\n  Emit = \"" + emit + "\"\nVIEW PView\n"
	all := append([]string{}, invs...)
	if emit != "none" {
		all = append(all, "EmitInv")
	}
	if len(all) > 0 {
		s += "INVARIANTS"
		for _, i := range all {
			s += " " + i
		}
		s += "\n"
	}
	return s + "CHECK_DEADLOCK FALSE\n"
}

func itoa(n int) string { b, _ := json.Marshal(n); return string(b) }

// collect model-checks the ideal process-layer spec, generates schedules from
// the as-is one and realises them; it returns the observed histories.
func (c *ProcCheck) collect(e *Env, cov map[string]any) ([]*Obs, error) {
	thorough := e.Tier == "thorough"
	ideal, err := e.runTLC("pideal", "MC_Proc", procCfg("{}", c.Scenarios, c.MaxCrashes, "none", c.IdealInvs), 8, 15*time.Minute)
	if err != nil {
		return nil, err
	}
	if !ideal.NoError {
		return nil, fatalf("TLC rejects the IDEAL process-layer specification for %s:\n%s", c.Prop, tail(ideal.Out, 60))
	}
	if _, ok := cov["states"]; !ok {
		cov["states"] = ideal.Distinct
		cov["transitions"] = ideal.Generated
	}
	cov["ideal_proc_model"] = map[string]any{"module": "ErgoProc", "scenarios": c.Scenarios, "max_crashes": c.MaxCrashes,
		"invariants": c.IdealInvs, "distinct": ideal.Distinct, "generated": ideal.Generated, "depth": ideal.Depth}

	gen, err := e.runTLC("pgen", "MC_Proc", procCfg(tlaSet(loadAsIsDev()), c.Scenarios, c.MaxCrashes, "states", nil), 8, 15*time.Minute)
	if err != nil {
		return nil, err
	}
	if len(gen.Tables) == 0 || len(gen.Lines) == 0 {
		return nil, fatalf("process-layer generation produced nothing:\n%s", tail(gen.Out, 40))
	}
	table := map[string]Scenario{}
	if err := json.Unmarshal([]byte(gen.Tables[0]), &table); err != nil {
		return nil, fatalf("scenario table: %v", err)
	}
	var states []procState
	for _, l := range gen.Lines {
		var ps procState
		if err := json.Unmarshal([]byte(l), &ps); err != nil {
			return nil, fatalf("state line: %v: %.200s", err, l)
		}
		if f := os.Getenv("VERIF_SCENARIO"); f != "" && ps.Scn != f {
			continue
		}
		states = append(states, ps)
	}
	maxRuns := c.MaxRunsQuick
	if thorough {
		maxRuns = 0
	}
	t0 := time.Now()
	obs, total, err := e.driveProc("e3", table, states, c.Only, 12, maxRuns, e.Seed)
	if err != nil {
		return nil, err
	}
	if len(c.Storms) > 0 {
		rounds := 12
		if thorough {
			rounds = 60
		}
		so, err := e.storms(table, c.Storms, rounds, c.StormN, c.Only, e.Seed)
		if err != nil {
			return nil, err
		}
		obs = append(obs, so...)
		cov["e3_storms"] = map[string]any{"scenarios": c.Storms, "processes_per_storm": c.StormN, "storms": len(so),
			"note": "uncontrolled schedules (all processes released at once); judged by the same linearisation clauses"}
	}
	cov["e3"] = map[string]any{"asis_states": len(states), "state_step_pairs": total, "realised": len(obs),
		"exhaustive": len(obs) == total, "wall_s": time.Since(t0).Seconds(), "asis_generated": gen.Generated}

	return obs, nil
}

func (c *ProcCheck) Run(e *Env) (*Outcome, *Evidence, error) {
	cov := map[string]any{}
	obs, err := c.collect(e, cov)
	if err != nil {
		return nil, nil, err
	}
	for i, a := range c.Also {
		acov := map[string]any{}
		o, err := a.collect(e, acov)
		if err != nil {
			return nil, nil, err
		}
		obs = append(obs, o...)
		cov[fmt.Sprintf("also_%d_%s", i+1, a.Scenarios)] = acov
	}
	fails, js, err := e.judge(c.Prop, obs)
	if err != nil {
		return nil, nil, err
	}
	if c.Harvest {
		hf, hs, err := e.harvest()
		if err != nil {
			return nil, nil, err
		}
		fails = append(fails, hf...)
		cov["e6_harvest"] = map[string]any{"hook_records": hs.Records, "processes": hs.Processes, "stores": hs.Stores,
			"suite_passed_with_hooks": hs.SuiteOK, "wall_s": hs.Wall,
			"checked": "per-process sync-point order vs the ErgoProc parking automaton, mutual exclusion per store, every write inside a held lock (spec/ErgoHooks.tla)"}
	}
	findings, err := loadFindings()
	if err != nil {
		return nil, nil, err
	}
	out := classify(c.Prop, fails, findings)
	distinct := map[string]bool{}
	var samples []any
	for _, o := range obs {
		k, _ := json.Marshal(o.Cmd)
		if !distinct[string(k)] && len(samples) < 3 {
			samples = append(samples, map[string]any{"scenario": o.Cmd["scenario"], "schedule": o.Cmd["schedule"], "procs": o.Procs})
		}
		distinct[string(k)] = true
	}
	cov["traces_validated_against_impl"] = len(obs)
	cov["evaluations"] = len(obs)
	cov["distinct_nontrivial"] = len(distinct)
	cov["rule"] = "every reachable state of the as-is process-layer model (one witness schedule each) x every process step or kill enabled in it, realised on real ergo processes through blocking sync-point hooks; distinct by (scenario, schedule)"
	cov["samples"] = samples
	cov["judged_records"] = js.Records
	level := c.Level
	if level == "" {
		level = "model_checking"
	}
	ev := &Evidence{Level: level, Coverage: cov, Assumptions: append([]string{
		"one write(2) of a short line is atomic for concurrent readers; torn data arises only from process death (emulated as SIGKILL at append.before + partial write by the controller)",
		"scenario menu and bounds of spec/MC_Proc.tla; at most " + itoa(c.MaxCrashes) + " kills per run",
	}, c.Assumptions...)}
	return out, ev, nil
}

func init() {
	registry["C01"] = func() Check {
		return &ProcCheck{Prop: "C01", Scenarios: "ClaimScenarios", MaxCrashes: 0,
			IdealInvs:    []string{"Serializable", "NeverBricked"},
			Only:         []string{"C01_serial", "C01_no_double", "C01_outcomes", "C01_winner_holds", "C01_nowait"},
			MaxRunsQuick: 2500, Storms: []string{"claim3-two", "claim2-epic", "claim-reopen"}, StormN: 5}
	}
	registry["C02"] = func() Check {
		return &ProcCheck{Prop: "C02", Scenarios: "PairScenarios", MaxCrashes: 0,
			IdealInvs:    []string{"Serializable", "NeverBricked"},
			Only:         []string{"C02_serial", "C02_wholelines", "C02_nowait", "C02_busy_fast", "C07_final"},
			MaxRunsQuick: 2000, Harvest: true, Storms: []string{"set-claim", "seq-seqrev", "prune-reopen", "compact-claim", "plan-new", "new-new"}, StormN: 4}
	}
	registry["C13"] = func() Check {
		return &ProcCheck{Prop: "C13", Scenarios: "ReaderScenarios", MaxCrashes: 1,
			IdealInvs:    []string{"ReaderOK", "NeverBricked"},
			Only:         []string{"C13_reader"},
			MaxRunsQuick: 3000}
	}
	registry["C03"] = func() Check {
		return &ProcCheck{Prop: "C03", Scenarios: "CrashScenarios", MaxCrashes: 1,
			IdealInvs:    []string{"NeverBricked", "AllOrNothing"},
			Only:         []string{"C03_readable", "C03_only_own_missing", "C03_continues", "C03_acked_survive", "C03_acked_effects"},
			MaxRunsQuick: 1500, Level: "fault_enumeration",
			// two processes, up to two kills: a crash while the damage of an earlier crash is being repaired
			Also: []*ProcCheck{{Prop: "C03", Scenarios: "CrashScenarios2", MaxCrashes: 2, IdealInvs: []string{"NeverBricked"},
				Only: []string{"C03_readable", "C03_continues", "C03_acked_survive", "C03_acked_effects"}, MaxRunsQuick: 600}}}
	}
	registry["C04"] = func() Check {
		return &ProcCheck{Prop: "C04", Scenarios: "CrashScenarios", MaxCrashes: 1,
			IdealInvs:    []string{"NeverBricked", "AllOrNothing"},
			Only:         []string{"C04_all_or_nothing", "C04_stays"},
			MaxRunsQuick: 1500, Level: "fault_enumeration"}
	}
}
