package main

// The sequential engines.
//
//   E1  state x command: TLC explores a bounded as-is ErgoSeq model and prints,
//       for every distinct state, one witness history and the command alphabet
//       at that state; every command of the alphabet is executed on the real
//       binary from (a copy of the store in) that state.
//   E2  simulation: `tlc -simulate` walks of a larger model; every step of each
//       walk is executed and judged.
//
// Both produce observation records judged by TLC (judge.go).

import (
	"encoding/json"
	"fmt"
	"math/rand"
	"os"
	"path/filepath"
	"sort"
	"strings"
	"sync"
	"sync/atomic"
	"time"
)

type SeqModel struct {
	Name      string
	MaxTasks  int
	MaxEpics  int
	Depth     int
	Agents    []string
	CmdNames  []string
	StateArgs []string
	ClaimArgs []string
	Extras    []string
	PlanDocs  string // name of an operator in MC_Seq
	ViewMode  string
	// crafted initial stores (CraftN > 0): drawn at random by TLC
	CraftN, CraftTasks, CraftEpics int
	CraftLegacy                    bool
	CraftMerged                    bool // hand-merged logs: a pruned item's events in every order
	CraftLegal                     bool // only (state, claimant) pairs the claim rule admits
	SimSample                      int  // simulation only: successors drawn per step (0 = all)
	// state x command engine: execute only these commands of the alphabet from each
	// state (nil = all); the histories that lead to the states are executed anyway
	AlphaOnly []string
}

func (m SeqModel) cfg(dev string, emit string, props, invs []string) string {
	var b strings.Builder
	b.WriteString("SPECIFICATION Spec\nCONSTANTS\n")
	fmt.Fprintf(&b, "  Dev = %s\n", dev)
	fmt.Fprintf(&b, "  MaxTasks = %d\n  MaxEpics = %d\n  MaxDepth = %d\n", m.MaxTasks, m.MaxEpics, m.Depth)
	fmt.Fprintf(&b, "  Agents = %s\n  CmdNames = %s\n  StateArgs = %s\n  ClaimArgs = %s\n  Extras = %s\n",
		tlaSet(m.Agents), tlaSet(m.CmdNames), tlaSet(m.StateArgs), tlaSet(m.ClaimArgs), tlaSet(m.Extras))
	docs := m.PlanDocs
	if docs == "" {
		docs = "NoDocs"
	}
	fmt.Fprintf(&b, "  PlanDocs <- %s\n", docs)
	vm := m.ViewMode
	if vm == "" {
		vm = "graph"
	}
	fmt.Fprintf(&b, "  ViewMode = %q\n  Emit = %q\n", vm, emit)
	mode := "empty"
	if m.CraftN > 0 {
		mode = "random"
		if m.CraftLegacy {
			mode = "legacy"
		}
		if m.CraftLegal {
			mode = "legal"
		}
		if m.CraftMerged {
			mode = "merged"
		}
	}
	fmt.Fprintf(&b, "  SimSample = %d\n", m.SimSample)
	fmt.Fprintf(&b, "  CraftMode = %q\n  CraftN = %d\n  CraftTasks = %d\n  CraftEpics = %d\n", mode, m.CraftN, m.CraftTasks, m.CraftEpics)
	b.WriteString("VIEW StateView\n")
	all := append([]string{}, invs...)
	if emit != "none" {
		all = append(all, "EmitInv")
	}
	if len(all) > 0 {
		fmt.Fprintf(&b, "INVARIANTS %s\n", strings.Join(all, " "))
	}
	if len(props) > 0 {
		fmt.Fprintf(&b, "PROPERTIES %s\n", strings.Join(props, " "))
	}
	b.WriteString("CHECK_DEADLOCK FALSE\n")
	return b.String()
}

func (m SeqModel) bounds() string {
	return fmt.Sprintf("tasks<=%d epics<=%d depth<=%d agents=%v cmds=%v states=%v claims=%v extras=%v docs=%s crafted=%d(%dt,%de)",
		m.MaxTasks, m.MaxEpics, m.Depth, m.Agents, m.CmdNames, m.StateArgs, m.ClaimArgs, m.Extras, m.PlanDocs, m.CraftN, m.CraftTasks, m.CraftEpics)
}

type emitted struct {
	Base  []map[string]any `json:"base"`
	Hist  []Cmd            `json:"hist"`
	Alpha []Cmd            `json:"alpha"`
}

func parseEmitted(lines []string) ([]emitted, error) {
	out := make([]emitted, 0, len(lines))
	for _, l := range lines {
		var e emitted
		if err := json.Unmarshal([]byte(l), &e); err != nil {
			return nil, fatalf("cannot parse state line from TLC: %v: %.200s", err, l)
		}
		out = append(out, e)
	}
	return out, nil
}

type driveStats struct {
	States      int
	Steps       int
	Histories   int
	Invocations int64
	Wall        float64
}

// driveStates executes, for each emitted state, its witness history and then
// every alphabet command from a copy of the resulting store.
func (e *Env) driveStates(tag string, states []emitted, judgeHist bool, workers int) ([]*Obs, driveStats, error) {
	var mu sync.Mutex
	var all []*Obs
	var stats driveStats
	t0 := time.Now()
	// a job is one state with a chunk of its alphabet: the witness history is
	// replayed per job (cheap) so that wide alphabets spread over all workers
	type job struct {
		idx    int
		lo, hi int
		first  bool
	}
	const chunk = 12
	var jobList []job
	for i, st := range states {
		if len(st.Alpha) == 0 {
			jobList = append(jobList, job{i, 0, 0, true})
			continue
		}
		for lo := 0; lo < len(st.Alpha); lo += chunk {
			hi := lo + chunk
			if hi > len(st.Alpha) {
				hi = len(st.Alpha)
			}
			jobList = append(jobList, job{i, lo, hi, lo == 0})
		}
	}
	jobs := make(chan int)
	var firstErr atomic.Value
	var wg sync.WaitGroup
	for w := 0; w < workers; w++ {
		wg.Add(1)
		go func(w int) {
			defer wg.Done()
			for jx := range jobs {
				if firstErr.Load() != nil {
					continue
				}
				jb := jobList[jx]
				st := states[jb.idx]
				root := filepath.Join(e.Scratch, fmt.Sprintf("%s-w%d-j%d", tag, w, jx))
				store, err := newStore(e.Ergo, root)
				if err != nil {
					firstErr.Store(err)
					continue
				}
				if len(st.Base) > 0 {
					if err := writeCraftedLog(store, st.Base); err != nil {
						firstErr.Store(err)
						continue
					}
				}
				sp := newStepper(store)
				sp.Base = st.Base
				var local []*Obs
				for _, c := range st.Hist {
					if sp.pseudo(c) {
						continue
					}
					o := sp.step(c, tag+"/hist")
					if jb.first && (judgeHist || len(st.Alpha) == 0) {
						local = append(local, o)
					}
				}
				for k := jb.lo; k < jb.hi; k++ {
					froot := fmt.Sprintf("%s-f%d", root, k)
					fs, err := sp.fork(froot)
					if err != nil {
						firstErr.Store(err)
						break
					}
					o := fs.step(st.Alpha[k], tag+"/alpha")
					local = append(local, o)
					_ = os.RemoveAll(froot)
				}
				_ = os.RemoveAll(root)
				mu.Lock()
				all = append(all, local...)
				if jb.first {
					stats.States++
					stats.Histories++
				}
				mu.Unlock()
			}
		}(w)
	}
	for i := range jobList {
		jobs <- i
	}
	close(jobs)
	wg.Wait()
	if v := firstErr.Load(); v != nil {
		return nil, stats, v.(error)
	}
	stats.Steps = len(all)
	stats.Wall = time.Since(t0).Seconds()
	return all, stats, nil
}

func sample[T any](xs []T, n int, rng *rand.Rand) []T {
	if n <= 0 || n >= len(xs) {
		return xs
	}
	idx := rng.Perm(len(xs))[:n]
	sort.Ints(idx)
	out := make([]T, 0, n)
	for _, i := range idx {
		out = append(out, xs[i])
	}
	return out
}

// nontrivial counts distinct (abstract pre-state, command) pairs whose command
// changed the store or was rejected for a reason other than its spelling.
func nontrivial(obs []*Obs) (int, []any) {
	seen := map[string]bool{}
	var samples []any
	for _, o := range obs {
		changed := fmt.Sprint(o.Facts["log_bytes_same"]) == "false"
		if !changed && o.Exit == 0 {
			continue
		}
		pre, _ := json.Marshal(stripTimes(o.Pre))
		c, _ := json.Marshal(o.Cmd)
		key := string(pre) + "|" + string(c)
		if seen[key] {
			continue
		}
		seen[key] = true
		if len(samples) < 3 {
			samples = append(samples, map[string]any{"history": o.hist, "cmd": o.Cmd, "exit": o.Exit, "reply": o.Reply})
		}
	}
	return len(seen), samples
}

func stripTimes(v map[string]any) map[string]any {
	out := map[string]any{}
	for k, x := range v {
		if it, ok := x.(viewItem); ok {
			it.Created, it.Updated, it.ClaimedAt = 0, 0, 0
			out[k] = it
		}
	}
	return out
}

func newRand(seed int64) *rand.Rand { return rand.New(rand.NewSource(seed)) }
