package main

// C19: the human list.  Crafted stores (TLC-drawn shapes, titles and agent
// names concretised from character classes with unambiguous display width)
// are listed with each flag on terminals of seeded widths; rows are parsed and
// compared by TLC (spec/ErgoList.tla) with the --json view of the same store.

import (
	"fmt"
	"math/rand"
	"path/filepath"
	"regexp"
	"strconv"
	"strings"
	"sync"
	"time"
	"unicode/utf8"
)

var ansiRe = regexp.MustCompile(`\x1b\[[0-9;]*[A-Za-z]`)
var rowIDRe = regexp.MustCompile(`([A-Z2-7]{6})\s*$`)
var sumRe = regexp.MustCompile(`(\d+) (ready|in progress|blocked|error|done|canceled)`)

// display width over the restricted alphabet the driver uses
func dispWidth(s string) int {
	w := 0
	for _, r := range s {
		switch {
		case r >= 0x0300 && r <= 0x036f: // combining marks
		case r >= 0x1100 && (r <= 0x115f || (r >= 0x2e80 && r <= 0xa4cf) || (r >= 0xac00 && r <= 0xd7a3) ||
			(r >= 0xf900 && r <= 0xfaff) || (r >= 0xfe30 && r <= 0xfe6f) || (r >= 0xff00 && r <= 0xff60) || (r >= 0xffe0 && r <= 0xffe6)):
			w += 2
		default:
			w++
		}
	}
	return w
}

func listTitle(rng *rand.Rand) string {
	base := []string{"Fix the parser", "Refactor cache layer for the new backend and all of its many callers",
		"日本語のタイトルを書く", "修复解析器中的错误并添加测试用例以及文档更新说明", "Ünïcödé tïtlé wïth äccénts ñ",
		"é́ combining ä marks ñ", "Short", "한국어 제목입니다 아주 긴 제목을 여기에 씁니다", "ééééééééééééééééééééééééééééééééééééééé",
		"mixed 混合 width タイトル with ascii", strings.Repeat("wide幅", 20)}
	return base[rng.Intn(len(base))]
}

func listAgent(rng *rand.Rand) string {
	return []string{"a1", "claude-opus@devbox-with-a-long-hostname.example.internal", "エージェント", "ägént-ñ"}[rng.Intn(4)]
}

func (e *Env) runListCase(st emitted, idx int, seed int64) ([]*Obs, error) {
	rng := rand.New(rand.NewSource(seed*7919 + int64(idx)))
	// concretise titles and agents
	agents := map[string]string{}
	for _, ev := range st.Base {
		switch ev["type"] {
		case "new_task", "new_epic":
			ev["title"] = listTitle(rng)
		case "claim":
			a, _ := ev["agent"].(string)
			if _, ok := agents[a]; !ok {
				agents[a] = listAgent(rng)
			}
			ev["agent"] = agents[a]
		}
	}
	root := filepath.Join(e.Scratch, fmt.Sprintf("hl-%d", idx))
	store, err := newStore(e.Ergo, root)
	if err != nil {
		return nil, err
	}
	defer removeAll(root)
	if err := writeCraftedLog(store, st.Base); err != nil {
		return nil, err
	}
	ids := newIDMap()
	_ = parseLog(store.readLog(), ids, true)
	view := store.observe(ids)
	if !view.Readable {
		return nil, nil
	}
	rk := newRanker()
	rk.addView(view.View)
	rv := rankView(view.View, rk.table())
	var out []*Obs
	type variant struct {
		flag string
		args []string
		epic string
	}
	variants := []variant{{"default", nil, ""}, {"all", []string{"--all"}, ""}, {"ready", []string{"--ready"}, ""}}
	for id, it := range view.View {
		if it.Kind == "epic" {
			variants = append(variants, variant{"epic", []string{"--epic", ids.real(id)}, id})
			variants = append(variants, variant{"epic_ready", []string{"--epic", ids.real(id), "--ready"}, id})
		}
	}
	for _, v := range variants {
		width := 0 // pipe
		if rng.Intn(5) > 0 {
			width = 20 + rng.Intn(141)
		}
		quiet := rng.Intn(6) == 0
		args := []string{}
		if quiet {
			args = append(args, "--quiet")
		}
		args = append(append(args, "list"), v.args...)
		var res RunResult
		if width == 0 {
			res = store.run(nil, nil, args...)
			width = 80
		} else {
			res, err = store.runOnPty(width, args...)
			if err != nil {
				return nil, fatalf("pty: %v", err)
			}
		}
		text := ansiRe.ReplaceAllString(string(res.Stdout), "")
		rows := []map[string]any{}
		summary := map[string]any{"ready": 0, "inprogress": 0, "blocked": 0, "error": 0, "done": 0, "canceled": 0}
		sentence := ""
		summaryPrinted := false
		valid := utf8.ValidString(text)
		for _, line := range strings.Split(text, "\n") {
			if strings.TrimSpace(line) == "" {
				continue
			}
			if m := rowIDRe.FindStringSubmatchIndex(line); m != nil && strings.Contains(line, "  ") {
				id := line[m[2]:m[3]]
				if _, known := ids.toModel[id]; known || true {
					trimmed := strings.TrimRight(line, " ")
					first, _ := utf8.DecodeRuneInString(strings.TrimLeft(line, " "))
					rows = append(rows, map[string]any{"id": ids.model(id), "glyph": first == '├' || first == '└' || first == '│',
						"width": dispWidth(trimmed), "idcol": dispWidth(line[:m[2]])})
					continue
				}
			}
			if ms := sumRe.FindAllStringSubmatch(line, -1); len(ms) > 0 && !strings.Contains(line, "  ") {
				for _, m := range ms {
					n, _ := strconv.Atoi(m[1])
					summary[strings.ReplaceAll(m[2], " ", "")] = n
				}
				summaryPrinted = true
				continue
			}
			if strings.HasPrefix(line, "No ") {
				sentence = strings.TrimSpace(line)
			}
		}
		hl := map[string]any{"flag": v.flag, "epic": v.epic, "width": width, "quiet": quiet, "rows": rows,
			"summary": summary, "summary_printed": summaryPrinted, "sentence": sentence, "utf8": valid, "view": rv, "exit": res.Exit}
		o := &Obs{Tag: "e8l", Cmd: Cmd{"name": "humanlist", "mode": "json", "flag": v.flag, "width": width, "quiet": quiet},
			Exit:  res.Exit,
			Reply: Reply{IDs: []string{}, Edges: [][2]string{}, Pruned: []string{}}, Out: outFacts{JSON: false, Values: 0},
			Pre: rv, Post: rv, LogPre: []map[string]any{}, LogPost: []map[string]any{}, Gone: []string{},
			Readable: true, ListShow: true, Facts: map[string]any{"flag": v.flag, "raw": string(res.Stdout)},
			Only: []string{"C19_all_once", "C19_active_once", "C19_ready_exact", "C19_known_rows", "C19_tree", "C19_summary",
				"C19_empty", "C19_fits", "C19_idcol", "C19_utf8", "C19_summary_noready", "C19_ready_rows"},
			Procs: []procRec{}, Readers: []readerRec{}, After: []afterRec{}, HL: hl}
		o.stdout = string(res.Stdout)
		out = append(out, o)
	}
	return out, nil
}

type ListCheck struct{}

func (ListCheck) Run(e *Env) (*Outcome, *Evidence, error) {
	thorough := e.Tier == "thorough"
	n := 400
	if thorough {
		n = 4000
	}
	model := famCraft(n, "list_ready")
	g, err := e.runTLC("hl", "MC_Seq", model.cfg("{}", "roots", nil, []string{"CodeReadyIsSpecReady"}), 8, 20*time.Minute, "-seed", strconv.FormatInt(e.Seed, 10))
	if err != nil {
		return nil, nil, err
	}
	stores, err := parseEmitted(g.Lines)
	if err != nil {
		return nil, nil, err
	}
	if len(stores) == 0 {
		return nil, nil, fatalf("no crafted stores:\n%s", tail(g.Out, 30))
	}
	var mu sync.Mutex
	var obs []*Obs
	var firstErr error
	ch := make(chan int)
	var wg sync.WaitGroup
	for w := 0; w < 16; w++ {
		wg.Add(1)
		go func() {
			defer wg.Done()
			for i := range ch {
				o, err := e.runListCase(stores[i], i, e.Seed)
				mu.Lock()
				if err != nil && firstErr == nil {
					firstErr = err
				}
				obs = append(obs, o...)
				mu.Unlock()
			}
		}()
	}
	for i := range stores {
		ch <- i
	}
	close(ch)
	wg.Wait()
	if firstErr != nil {
		return nil, nil, firstErr
	}
	fails, js, err := e.judge("C19", obs)
	if err != nil {
		return nil, nil, err
	}
	findings, err := loadFindings()
	if err != nil {
		return nil, nil, err
	}
	out := classify("C19", fails, findings)
	var samples []any
	for _, o := range obs[:min(2, len(obs))] {
		samples = append(samples, map[string]any{"flag": o.HL["flag"], "width": o.HL["width"], "rows": o.HL["rows"], "summary": o.HL["summary"], "raw": o.Facts["raw"]})
	}
	cov := map[string]any{"evaluations": len(obs), "distinct_nontrivial": len(obs),
		"rule":    "TLC-drawn crafted stores (3 tasks, 2 epics: every state/claim/membership/dependency combination) x list flag {default, --all, --ready, --epic} x seeded terminal width 20..160 (pty) or pipe x --quiet; titles/agents from width-unambiguous classes (ASCII, Latin-1, CJK, Hangul, combining marks); distinct by (store, flag, width)",
		"samples": samples, "crafted_stores": len(stores), "judged_records": js.Records,
		"states": g.Distinct, "transitions": g.Generated}
	ev := &Evidence{Level: "exploration", Coverage: cov, Assumptions: []string{
		"display width is judged only over characters of unambiguous width (ASCII, Latin-1 letters, CJK/Hangul = 2, combining marks = 0); emoji and East-Asian-ambiguous widths are not judged",
		"row order is not part of the property and is not judged; widths below 20 columns are outside 'narrow'"}}
	return out, ev, nil
}

func init() {
	registry["C19"] = func() Check { return ListCheck{} }
}
