package main

// Judging: observation records are written as NDJSON shards, each shard is
// handed to TLC running the trace specification ErgoTrace, and TLC's verdict
// file (failing <<line, clause>> pairs) is read back.  The only thing decided
// here is bookkeeping: which property a clause belongs to, whether a failure
// is a listed known finding, what goes into the evidence file.

import (
	"encoding/json"
	"fmt"
	"os"
	"path/filepath"
	"sort"
	"strings"
	"sync"
	"time"
)

var asIsDev = []string{"D1", "D2", "D3", "D4", "D5", "D6", "D7", "D10"}

func loadAsIsDev() []string {
	b, err := os.ReadFile(filepath.Join(verifDir, "spec", "asis.json"))
	if err != nil {
		return asIsDev
	}
	var d []string
	if json.Unmarshal(b, &d) != nil {
		return asIsDev
	}
	return d
}

func tlaSet(xs []string) string {
	q := make([]string, len(xs))
	for i, x := range xs {
		q[i] = fmt.Sprintf("%q", x)
	}
	return "{" + strings.Join(q, ", ") + "}"
}

type Failure struct {
	Obs    *Obs
	Clause string
}

type JudgeStats struct {
	Records   int
	Shards    int
	TLCWall   float64
	Evaluated int // records x clauses
}

const shardSize = 1500

// judge runs ErgoTrace over all observations and returns every failing
// (record, clause) pair.
func (e *Env) judge(name string, obs []*Obs) ([]Failure, JudgeStats, error) {
	var stats JudgeStats
	stats.Records = len(obs)
	if dump := os.Getenv("VERIF_DUMP"); dump != "" {
		if f, err := os.Create(dump); err == nil {
			enc := json.NewEncoder(f)
			for _, o := range obs {
				_ = enc.Encode(o)
			}
			f.Close()
		}
	}
	if len(obs) == 0 {
		return nil, stats, nil
	}
	work := filepath.Join(e.Scratch, "judge-"+name)
	if err := copyDir(filepath.Join(verifDir, "spec"), work); err != nil {
		return nil, stats, err
	}
	type shard struct {
		idx   int
		recs  []*Obs
		fails []Failure
		err   error
		wall  float64
	}
	var shards []*shard
	for i := 0; i < len(obs); i += shardSize {
		j := i + shardSize
		if j > len(obs) {
			j = len(obs)
		}
		shards = append(shards, &shard{idx: len(shards), recs: obs[i:j]})
	}
	stats.Shards = len(shards)
	dev := tlaSet(loadAsIsDev())
	sem := make(chan struct{}, 8)
	var wg sync.WaitGroup
	for _, sh := range shards {
		wg.Add(1)
		go func(sh *shard) {
			defer wg.Done()
			sem <- struct{}{}
			defer func() { <-sem }()
			obsFile := fmt.Sprintf("obs-%d.ndjson", sh.idx)
			outFile := fmt.Sprintf("verdicts-%d.json", sh.idx)
			f, err := os.Create(filepath.Join(work, obsFile))
			if err != nil {
				sh.err = err
				return
			}
			enc := json.NewEncoder(f)
			enc.SetEscapeHTML(false)
			for _, o := range sh.recs {
				if o.Hidden == nil {
					o.Hidden = []string{}
				}
				if o.Rows == nil {
					o.Rows = []string{}
				}
				if err := enc.Encode(o); err != nil {
					sh.err = err
					f.Close()
					return
				}
			}
			f.Close()
			cfg := fmt.Sprintf("SPECIFICATION Spec\nCONSTANTS\n  ObsFile = %q\n  OutFile = %q\n  AsIsDev = %s\nINVARIANT Done\nPOSTCONDITION Consumed\nCHECK_DEADLOCK FALSE\n",
				obsFile, outFile, dev)
			res, err := e.runTLCIn(work, fmt.Sprintf("trace-%d", sh.idx), "ErgoTrace", cfg, 1, 20*time.Minute)
			if err != nil {
				sh.err = err
				return
			}
			sh.wall = res.WallSeconds
			b, rerr := os.ReadFile(filepath.Join(work, outFile))
			if rerr != nil || !res.NoError {
				sh.err = fatalf("trace judging failed on shard %d (TLC did not consume the trace):\n%s", sh.idx, tail(res.Out, 140))
				return
			}
			var v struct {
				N   int `json:"n"`
				Bad []struct {
					Line   int    `json:"line"`
					Clause string `json:"clause"`
				} `json:"bad"`
			}
			if err := json.Unmarshal(b, &v); err != nil {
				sh.err = fatalf("bad verdict file: %v", err)
				return
			}
			if v.N != len(sh.recs) {
				sh.err = fatalf("verdict file covers %d of %d records", v.N, len(sh.recs))
				return
			}
			for _, x := range v.Bad {
				if x.Line >= 1 && x.Line <= len(sh.recs) {
					sh.fails = append(sh.fails, Failure{Obs: sh.recs[x.Line-1], Clause: x.Clause})
				}
			}
		}(sh)
	}
	wg.Wait()
	var fails []Failure
	for _, sh := range shards {
		if sh.err != nil {
			return nil, stats, sh.err
		}
		fails = append(fails, sh.fails...)
		stats.TLCWall += sh.wall
	}
	return fails, stats, nil
}

// ---------------------------------------------------------------------------
// known findings

type Finding struct {
	ID       string              `json:"id"`
	Property string              `json:"property"`
	Status   string              `json:"status"` // "open" or "fixed"
	Dev      string              `json:"deviation"`
	Clauses  []string            `json:"clauses"`
	Match    map[string][]string `json:"match"`
	Text     string              `json:"text"`
	Commit   string              `json:"commit,omitempty"`
}

func loadFindings() ([]Finding, error) {
	b, err := os.ReadFile(filepath.Join(verifDir, "known_findings.json"))
	if err != nil {
		if os.IsNotExist(err) {
			return nil, nil
		}
		return nil, err
	}
	var fs []Finding
	if err := json.Unmarshal(b, &fs); err != nil {
		return nil, fatalf("known_findings.json: %v", err)
	}
	return fs, nil
}

// features flattens an observation into the small vocabulary known-finding
// entries are written in.
func features(o *Obs) map[string]string {
	f := map[string]string{}
	c := o.Cmd
	f["cmd"] = c.name()
	f["mode"] = c.str("mode")
	f["exit"] = fmt.Sprint(o.Exit)
	f["tag"] = o.Tag
	for _, k := range []string{"state", "claim", "epic", "title", "body", "rpath", "rsum"} {
		v := c.str(k)
		switch {
		case v == Absent:
			f["has."+k] = "no"
		case v == "":
			f["has."+k] = "empty"
		default:
			f["has."+k] = "yes"
		}
		if k == "state" {
			f["arg.state"] = v
		}
	}
	if a := c.str("agent"); a == "" || a == Absent {
		f["has.agent"] = "no"
	} else {
		f["has.agent"] = "yes"
	}
	classify := func(id string) string {
		if id == Absent {
			return "absent"
		}
		if id == "" {
			return "empty"
		}
		for _, g := range o.Gone {
			if g == id {
				return "pruned"
			}
		}
		if it, ok := o.Pre[id]; ok {
			if vi, ok := it.(viewItem); ok {
				return vi.Kind
			}
		}
		return "unknown"
	}
	if c.has("id") {
		id := c.str("id")
		f["target"] = classify(id)
		if it, ok := o.Pre[id]; ok {
			if vi, ok := it.(viewItem); ok {
				f["target.state"] = vi.State
				if vi.Claim == "" {
					f["target.claimed"] = "no"
				} else {
					f["target.claimed"] = "yes"
				}
			}
		}
	}
	if c.name() == "new_task" || c.name() == "set" {
		f["epicarg"] = classify(c.str("epic"))
	}
	if c.name() == "new_task" {
		if c.has("state") || c.has("claim") || c.has("rpath") {
			f["newtask.followup"] = "yes"
		} else {
			f["newtask.followup"] = "no"
		}
	}
	f["diff"] = viewDiff(o.Pre, o.Post)
	if sc, ok := c["scenario"].(string); ok {
		f["scenario"] = sc
	}
	if v, ok := o.Facts["torn"].(string); ok {
		f["torn"] = v
	}
	if c.name() == "sequence" {
		f["chain"] = fmt.Sprint(len(c.strs("ids")))
	}
	for k, v := range o.Facts {
		if s, ok := v.(string); ok {
			f["fact."+k] = s
		}
	}
	return f
}

func (fd *Finding) matches(clause string, o *Obs, cofailed map[string]bool) bool {
	if fd.Status == "fixed" {
		return false
	}
	ok := false
	for _, c := range fd.Clauses {
		if c == clause {
			ok = true
		}
	}
	if !ok {
		return false
	}
	f := features(o)
	for c := range cofailed {
		f["failed."+c] = "yes"
	}
	for k, allowed := range fd.Match {
		v, present := f[k]
		if !present {
			v = ""
		}
		hit := false
		for _, a := range allowed {
			if a == v {
				hit = true
			}
		}
		if !hit {
			return false
		}
	}
	return true
}

// ---------------------------------------------------------------------------
// outcome of a check

type Outcome struct {
	Property   string
	Violations []Failure         // unlisted, reproduced failures of this property's clauses
	Known      map[string]int    // finding id -> hits
	KnownText  map[string]string // finding id -> text
	Drift      map[string]int    // refinement clause -> count
	Other      map[string]int    // failures of other properties' clauses (informational)
	Unrepro    int
}

func clauseProperty(clause string) string {
	if i := strings.Index(clause, "_"); i > 0 {
		return clause[:i]
	}
	return clause
}

// classify splits failures into violations of `prop`, known findings, drift.
func classify(prop string, fails []Failure, findings []Finding) *Outcome {
	out := &Outcome{Property: prop, Known: map[string]int{}, KnownText: map[string]string{}, Drift: map[string]int{}, Other: map[string]int{}}
	co := map[*Obs]map[string]bool{}
	for _, f := range fails {
		if co[f.Obs] == nil {
			co[f.Obs] = map[string]bool{}
		}
		co[f.Obs][f.Clause] = true
	}
	for _, f := range fails {
		p := clauseProperty(f.Clause)
		if p == "R" {
			out.Drift[f.Clause]++
			if out.Drift[f.Clause] <= 3 && os.Getenv("VERIF_DEBUG") != "" {
				b, _ := json.Marshal(f.Obs)
				fmt.Fprintf(os.Stderr, "DRIFT %s: %s\n  hist=%v\n  stderr=%s\n  obs=%s\n", f.Clause, f.Obs.describe(), f.Obs.hist, f.Obs.stderr, b)
			}
			continue
		}
		if p != prop {
			out.Other[f.Clause]++
			continue
		}
		matched := false
		for i := range findings {
			fd := &findings[i]
			if fd.Property == prop && fd.matches(f.Clause, f.Obs, co[f.Obs]) {
				out.Known[fd.ID]++
				out.KnownText[fd.ID] = fd.Text
				matched = true
				break
			}
		}
		if !matched {
			out.Violations = append(out.Violations, f)
		}
	}
	return out
}

// writeReplay stores a witness for a violation and returns its path.
func writeReplay(prop string, f Failure) string {
	dir := filepath.Join(verifDir, "replays")
	_ = os.MkdirAll(dir, 0o755)
	rec := map[string]any{
		"property": prop, "clause": f.Clause, "base": f.Obs.base, "history": f.Obs.hist, "cmd": f.Obs.Cmd,
		"exit": f.Obs.Exit, "stdout": f.Obs.stdout, "stderr": f.Obs.stderr, "argv": f.Obs.realArgv,
		"observation": f.Obs, "engine": f.Obs.Tag,
	}
	b, _ := json.MarshalIndent(rec, "", " ")
	h := fnv(string(b))
	p := filepath.Join(dir, fmt.Sprintf("%s-%s-%08x.json", prop, f.Clause, h))
	_ = os.WriteFile(p, b, 0o644)
	return p
}

func fnv(s string) uint32 {
	h := uint32(2166136261)
	for i := 0; i < len(s); i++ {
		h ^= uint32(s[i])
		h *= 16777619
	}
	return h
}

// report prints KNOWN-FINDING / VIOLATION lines and returns the exit status.
func (out *Outcome) report() int {
	ids := make([]string, 0, len(out.Known))
	for id := range out.Known {
		ids = append(ids, id)
	}
	sort.Strings(ids)
	for _, id := range ids {
		fmt.Printf("KNOWN-FINDING: property=%s %s: %s (%d occurrences)\n", out.Property, id, out.KnownText[id], out.Known[id])
	}
	if len(out.Violations) == 0 {
		return 0
	}
	seen := map[string]bool{}
	n := 0
	for _, v := range out.Violations {
		key := v.Clause + "|" + v.Obs.Cmd.name() + "|" + fmt.Sprint(features(v.Obs))
		if seen[key] {
			continue
		}
		seen[key] = true
		n++
		if n > 12 {
			continue
		}
		p := writeReplay(out.Property, v)
		fmt.Printf("VIOLATION property=%s replay=%s\n", out.Property, p)
		fmt.Fprintf(os.Stderr, "  clause %s failed on %s\n  features: %v\n", v.Clause, v.Obs.describe(), features(v.Obs))
	}
	return 1
}

// viewDiff names what differs between two views: "" (nothing), "+items" /
// "-items" for created / removed ids, and the names of changed fields
// (timestamps and the derived ready/blocked flags are ignored).
func viewDiff(pre, post map[string]any) string {
	set := map[string]bool{}
	for id := range post {
		if _, ok := pre[id]; !ok {
			set["+items"] = true
		}
	}
	for id, a := range pre {
		b, ok := post[id]
		if !ok {
			set["-items"] = true
			continue
		}
		x, _ := a.(viewItem)
		y, _ := b.(viewItem)
		if x.State != y.State {
			set["state"] = true
		}
		if x.Claim != y.Claim {
			set["claim"] = true
		}
		if x.Epic != y.Epic {
			set["epic"] = true
		}
		if x.Title != y.Title {
			set["title"] = true
		}
		if x.Body != y.Body {
			set["body"] = true
		}
		if fmt.Sprint(x.Deps) != fmt.Sprint(y.Deps) || fmt.Sprint(x.RDeps) != fmt.Sprint(y.RDeps) {
			set["deps"] = true
		}
		if len(x.Results) != len(y.Results) {
			set["results"] = true
		}
	}
	var names []string
	for k := range set {
		names = append(names, k)
	}
	sort.Strings(names)
	return strings.Join(names, ",")
}

// confirm re-executes sequential violations from a fresh store (the recorded
// initial log, history and command) and keeps only those whose clause fails
// again; what does not reproduce is counted and dropped (flake control).
func (e *Env) confirm(out *Outcome) error {
	var keep []Failure
	var redo []Failure
	seen := map[string]int{}
	for _, v := range out.Violations {
		n := v.Obs.Cmd.name()
		if n == "conc" || n == "text" || n == "layout" || n == "humanlist" || n == "filecase" || n == "harvest" {
			keep = append(keep, v) // engines with their own deterministic inputs
			continue
		}
		key := v.Clause + "|" + n
		seen[key]++
		if seen[key] > 4 {
			continue // more of the same: the first few decide
		}
		redo = append(redo, v)
	}
	if len(redo) == 0 {
		out.Violations = keep
		return nil
	}
	var stores []emitted
	for _, v := range redo {
		hist := append([]Cmd{}, v.Obs.hist...)
		stores = append(stores, emitted{Base: v.Obs.base, Hist: hist, Alpha: []Cmd{v.Obs.Cmd}})
	}
	obs, _, err := e.driveStates("confirm", stores, false, 8)
	if err != nil {
		return err
	}
	fails, _, err := e.judge("confirm", obs)
	if err != nil {
		return err
	}
	again := map[string]bool{}
	for _, f := range fails {
		b, _ := json.Marshal(f.Obs.Cmd)
		h, _ := json.Marshal(f.Obs.hist)
		again[f.Clause+"|"+string(b)+"|"+string(h)] = true
	}
	for _, v := range redo {
		b, _ := json.Marshal(complete(v.Obs.Cmd))
		h, _ := json.Marshal(v.Obs.hist)
		if again[v.Clause+"|"+string(b)+"|"+string(h)] {
			keep = append(keep, v)
		} else {
			out.Unrepro++
		}
	}
	out.Violations = keep
	return nil
}
