package main

// `check selftest`: demonstrations that the machinery is bound and not vacuous.
//
//  A. Deviation attribution: for every named deviation Dk the specification with
//     Dev = {Dk} must VIOLATE the property the deviation was found under (TLC
//     produces a counterexample), while Dev = {} passes: the ideal checks are not
//     vacuous and each repaired defect is tied to one named cause.
//  B. Tamper tests: observation records of real runs are corrupted one field at
//     a time (a state flipped, an event dropped, an exit status changed, a reply
//     id swapped ...); the trace specification must reject every corrupted record.

import (
	"encoding/json"
	"fmt"
	"os"
	"path/filepath"
	"strings"
	"time"
)

type devCase struct {
	Dev    string
	Seq    *SeqModel
	Props  []string
	Proc   string // scenario set
	Crash  int
	Invs   []string
	Module string
}

func selftest() int {
	env, err := newEnv("quick")
	if err != nil {
		fmt.Fprintln(os.Stderr, err)
		return 2
	}
	defer env.Close()
	if err := env.buildErgo(); err != nil {
		fmt.Fprintln(os.Stderr, err)
		return 2
	}
	report := map[string]any{}
	ok := true

	// ---- A. deviation attribution
	st3, st4 := famState(3), famState(4)
	ids := famIds(2, 1, 3)
	full2 := famFull(2)
	chains := with(famGraph(3, 0, 5), func(m *SeqModel) {
		m.Extras = []string{"chains", "badid"}
		m.StateArgs = nil
		m.CmdNames = []string{"new_task", "sequence"}
	})
	g6 := with(famGraph(2, 2, 6), func(m *SeqModel) { m.StateArgs = nil; m.CmdNames = []string{"new_task", "new_epic", "sequence"} })
	cases := []devCase{
		{Dev: "D1", Seq: &st4, Props: []string{"P_C06"}}, {Dev: "D2", Seq: &st4, Props: []string{"P_C06"}},
		{Dev: "D3", Seq: &ids, Props: []string{"P_C14"}}, {Dev: "D4", Seq: &ids, Props: []string{"P_C14"}},
		{Dev: "D5", Seq: &st3, Props: []string{"P_C10", "P_C16"}}, {Dev: "D6", Seq: &full2, Props: []string{"P_C10"}},
		{Dev: "D7", Seq: &chains, Props: []string{"P_C10"}}, {Dev: "D10", Seq: &g6, Props: []string{"P_C15"}},
		{Dev: "multi", Proc: "PairScenarios", Invs: []string{"Serializable"}},
		{Dev: "D8", Proc: "PairScenarios", Crash: 1, Invs: []string{"NeverBricked"}},
		{Dev: "D9", Proc: "CrashScenarios", Crash: 1, Invs: []string{"AllOrNothing"}},
		{Dev: "D18", Proc: "ReaderScenarios", Crash: 1, Invs: []string{"ReaderOK"}},
		{Dev: "D17", Proc: "PairScenarios", Invs: []string{"Serializable"}},
	}
	var rows []map[string]any
	for _, c := range cases {
		var res *TLCResult
		dev := tlaSet([]string{c.Dev})
		if c.Dev == "D9" || c.Dev == "D8" || c.Dev == "D18" {
			dev = tlaSet([]string{c.Dev})
		}
		if c.Seq != nil {
			res, err = env.runTLC("dev-"+c.Dev, "MC_Seq", c.Seq.cfg(dev, "none", c.Props, nil), 12, 15*time.Minute)
		} else {
			res, err = env.runTLC("dev-"+c.Dev, "MC_Proc", procCfg(dev, c.Proc, c.Crash, "none", c.Invs), 8, 15*time.Minute)
		}
		if err != nil {
			fmt.Fprintln(os.Stderr, err)
			return 2
		}
		violated := len(res.Violated) > 0
		rows = append(rows, map[string]any{"deviation": c.Dev, "violated": res.Violated, "counterexample_found": violated, "distinct": res.Distinct})
		fmt.Printf("deviation %-6s alone: %v  %v\n", c.Dev, map[bool]string{true: "counterexample", false: "NO COUNTEREXAMPLE"}[violated], res.Violated)
		if !violated {
			ok = false
			fmt.Fprintln(os.Stderr, tail(res.Out, 15))
		}
	}
	fs, err := env.runTLC("dev-D12", "MC_FS", "INIT Init\nNEXT Next\nCONSTANT Dev = {\"D12\"}\nINVARIANTS IdealAgrees\n", 1, 5*time.Minute)
	if err == nil {
		v := len(fs.Violated) > 0
		rows = append(rows, map[string]any{"deviation": "D12", "violated": fs.Violated, "counterexample_found": v})
		fmt.Printf("deviation %-6s alone: %v\n", "D12", map[bool]string{true: "counterexample", false: "NO COUNTEREXAMPLE"}[v])
		ok = ok && v
	}
	report["deviation_attribution"] = rows

	// ---- B. tamper tests
	probes := append(append(append([]emitted{}, probeHalf...), probeCompact...), probeEdges...)
	obs, _, err := env.driveStates("tamper", probes, true, 8)
	if err != nil {
		fmt.Fprintln(os.Stderr, err)
		return 2
	}
	clean, _, err := env.judge("tamper-clean", obs)
	if err != nil {
		fmt.Fprintln(os.Stderr, err)
		return 2
	}
	type tamper struct {
		name string
		f    func(o *Obs) bool // returns false when not applicable
	}
	clone := func(o *Obs) *Obs {
		b, _ := json.Marshal(o)
		var c Obs
		_ = json.Unmarshal(b, &c)
		return &c
	}
	anyItem := func(v map[string]any) (string, map[string]any) {
		for id, it := range v {
			if m, ok := it.(map[string]any); ok {
				return id, m
			}
		}
		return "", nil
	}
	tampers := []tamper{
		{"flip an item's state in post", func(o *Obs) bool {
			id, it := anyItem(o.Post)
			if id == "" {
				return false
			}
			if it["state"] == "todo" {
				it["state"] = "done"
			} else {
				it["state"] = "todo"
			}
			return true
		}},
		{"drop the last event of logpost", func(o *Obs) bool {
			if len(o.LogPost) == 0 || len(o.LogPost) == len(o.LogPre) {
				return false
			}
			o.LogPost = o.LogPost[:len(o.LogPost)-1]
			return true
		}},
		{"turn success into failure", func(o *Obs) bool {
			if o.Exit != 0 || len(o.LogPost) == len(o.LogPre) {
				return false
			}
			o.Exit = 1
			return true
		}},
		{"flip ready flag", func(o *Obs) bool {
			for _, it := range o.Post {
				if m, ok := it.(map[string]any); ok && m["kind"] == "task" {
					m["ready"] = !(m["ready"] == true)
					return true
				}
			}
			return false
		}},
		{"swap two events of logpost", func(o *Obs) bool {
			n := len(o.LogPost)
			if n < 2 || fmt.Sprint(o.LogPost[0]) == fmt.Sprint(o.LogPost[n-1]) {
				return false
			}
			o.LogPost[0], o.LogPost[n-1] = o.LogPost[n-1], o.LogPost[0]
			return true
		}},
		{"change a claimant in post", func(o *Obs) bool {
			for _, it := range o.Post {
				if m, ok := it.(map[string]any); ok && m["claim"] != "" {
					m["claim"] = "someone-else"
					return true
				}
			}
			return false
		}},
		{"remove an item from post", func(o *Obs) bool {
			id, _ := anyItem(o.Post)
			if id == "" {
				return false
			}
			delete(o.Post, id)
			return true
		}},
		{"hide a live task from a view", func(o *Obs) bool {
			for id, it := range o.Post {
				if m, ok := it.(map[string]any); ok && m["kind"] == "task" {
					o.Hidden = append(o.Hidden, id+":human")
					return true
				}
			}
			return false
		}},
		{"keep a pruned id as a dependency", func(o *Obs) bool {
			if len(o.Gone) == 0 {
				return false
			}
			for _, it := range o.Post {
				if m, ok := it.(map[string]any); ok && m["kind"] == "task" {
					d, _ := m["deps"].([]any)
					m["deps"] = append(d, o.Gone[0])
					return true
				}
			}
			return false
		}},
		{"bump updated timestamp", func(o *Obs) bool {
			_, it := anyItem(o.Post)
			if it == nil {
				return false
			}
			it["updated"] = 99
			return true
		}},
	}
	var trows []map[string]any
	for _, t := range tampers {
		var bad []*Obs
		for _, o := range obs {
			c := clone(o)
			// cloned views are generic maps now
			if t.f(c) {
				bad = append(bad, c)
			}
			if len(bad) >= 25 {
				break
			}
		}
		if len(bad) == 0 {
			continue
		}
		fails, _, err := env.judge("tamper-"+strings.ReplaceAll(t.name, " ", "_"), bad)
		if err != nil {
			fmt.Fprintln(os.Stderr, err)
			return 2
		}
		flagged := map[*Obs]bool{}
		for _, f := range fails {
			flagged[f.Obs] = true
		}
		trows = append(trows, map[string]any{"tamper": t.name, "records": len(bad), "rejected": len(flagged)})
		fmt.Printf("tamper %-32s %d/%d corrupted records rejected\n", t.name, len(flagged), len(bad))
		if len(flagged) != len(bad) {
			ok = false
		}
	}
	report["tamper"] = trows
	report["clean_records"] = len(obs)
	report["clean_failures"] = len(clean)
	if len(clean) > 0 {
		ok = false
		fmt.Printf("UNTAMPERED records failed: %d\n", len(clean))
	}
	report["ok"] = ok
	b, _ := json.MarshalIndent(report, "", " ")
	_ = os.MkdirAll(filepath.Join(verifDir, "evidence"), 0o755)
	_ = os.WriteFile(filepath.Join(verifDir, "selftest-result.json"), append(b, '\n'), 0o644)
	if ok {
		fmt.Println("selftest: ok")
		return 0
	}
	fmt.Println("selftest: FAILED")
	return 2
}
