package main

// Large configurations.  The exhaustive engines explore SMALL models completely
// (a handful of items, short histories); defects gated on a size - the sixth
// task, a dependency chain of five, the ninth result, the 250th event, an
// `after` list of four - live beyond them.  This driver walks the real binary
// through long random histories over many items and hands every step to the
// same judge: the commands need not come from TLC's alphabet, because the
// clauses evaluate the specification's own outcome for whatever command was
// observed (ErgoTrace: AsIs!Outcomes(logpre, cmd)) - trace validation in the
// direction "recorded from the code, checked against the specification".

import (
	"fmt"
	"math/rand"
	"path/filepath"
	"sort"
	"sync"
)

type bigGen struct {
	rng      *rand.Rand
	n        int // commands issued
	maxTasks int
	maxEpics int
}

func (g *bigGen) pick(xs []string) string {
	if len(xs) == 0 {
		return "zz"
	}
	return xs[g.rng.Intn(len(xs))]
}

func (g *bigGen) some(xs []string, k int) []string {
	out := make([]string, 0, k)
	for i := 0; i < k; i++ {
		out = append(out, g.pick(xs))
	}
	return out
}

// distinct picks up to k different elements, in random order
func (g *bigGen) distinct(xs []string, k int) []string {
	p := g.rng.Perm(len(xs))
	if k > len(xs) {
		k = len(xs)
	}
	out := make([]string, 0, k)
	for _, i := range p[:k] {
		out = append(out, xs[i])
	}
	return out
}

func (g *bigGen) next(view View, gone map[string]bool) Cmd {
	g.n++
	var tasks, epics, goneIDs []string
	for id, it := range view {
		if it.Kind == "epic" {
			epics = append(epics, id)
		} else {
			tasks = append(tasks, id)
		}
	}
	for id := range gone {
		goneIDs = append(goneIDs, id)
	}
	sort.Strings(tasks)
	sort.Strings(epics)
	sort.Strings(goneIDs)
	anyID := func() string {
		switch r := g.rng.Intn(20); {
		case r == 0:
			return g.pick(goneIDs)
		case r == 1:
			return "zz"
		case r < 5 && len(epics) > 0:
			return g.pick(epics)
		default:
			return g.pick(tasks)
		}
	}
	agent := func() string { return []string{"a1", "a2", "a3"}[g.rng.Intn(3)] }
	type choice struct {
		w int
		f func() Cmd
	}
	choices := []choice{
		{14, func() Cmd {
			c := cNewTask("title", fmt.Sprintf("T%d", g.n))
			if len(epics) > 0 && g.rng.Intn(2) == 0 {
				c["epic"] = g.pick(epics)
			}
			switch g.rng.Intn(8) {
			case 0:
				c["state"], c["agent"] = "doing", agent()
			case 1:
				c["state"] = []string{"done", "blocked", "canceled"}[g.rng.Intn(3)]
			case 2:
				c["claim"] = agent()
			}
			return c
		}},
		{5, func() Cmd { return cNewEpic(fmt.Sprintf("E%d", g.n)) }},
		{20, func() Cmd {
			c := cSet(anyID())
			for k := 0; k < 1+g.rng.Intn(3); k++ {
				switch g.rng.Intn(6) {
				case 0, 1:
					c["state"] = []string{"todo", "doing", "done", "blocked", "canceled", "error", "bogus"}[g.rng.Intn(7)]
				case 2:
					c["claim"] = []string{"", "a1", "a2"}[g.rng.Intn(3)]
				case 3:
					c["epic"] = append(append([]string{""}, epics...), g.pick(tasks))[g.rng.Intn(len(epics)+2)]
				case 4:
					c["title"] = fmt.Sprintf("renamed %d", g.n)
				case 5:
					c["body"] = []string{"x", "MID", "two\nlines"}[g.rng.Intn(3)]
				}
			}
			if g.rng.Intn(2) == 0 {
				c["agent"] = agent()
			}
			return c
		}},
		{9, func() Cmd {
			p := []string{"r1.txt", "r2.txt", "sub/r3.txt"}[g.rng.Intn(3)]
			return cSet(g.pick(tasks), "rsum", fmt.Sprintf("result %d", g.n), "rpath", p, "rclean", p)
		}},
		{5, func() Cmd { return cClaimID(anyID(), agent()) }},
		{10, func() Cmd {
			c := cClaim(agent())
			if len(epics) > 0 && g.rng.Intn(3) == 0 {
				c["epic"] = g.pick(epics)
			}
			return c
		}},
		{14, func() Cmd {
			pool := tasks
			if len(epics) >= 2 && g.rng.Intn(4) == 0 {
				pool = epics
			}
			k := 2 + g.rng.Intn(6)
			if g.rng.Intn(3) == 0 {
				return cSeq(g.some(pool, k)...) // may repeat an id
			}
			return cSeq(g.distinct(pool, k)...)
		}},
		{4, func() Cmd {
			// an existing edge, if there is one
			for _, id := range tasks {
				if d := view[id].Deps; len(d) > 0 && g.rng.Intn(2) == 0 {
					return cSeqRm(d[g.rng.Intn(len(d))], id)
				}
			}
			return cSeqRm(anyID(), anyID())
		}},
		{3, func() Cmd { return cPrune() }},
		{2, func() Cmd { return cPruneDry() }},
		{5, func() Cmd { return cCompact() }},
		{4, func() Cmd {
			k := 2 + g.rng.Intn(7)
			dense := g.rng.Intn(3) == 0 // every task after (up to five of) the earlier ones, listed in random order
			if dense {
				k = 6 + g.rng.Intn(3)
			}
			titles := make([]string, k)
			for i := range titles {
				titles[i] = fmt.Sprintf("p%d-%d", g.n, i+1)
			}
			var ts []any
			for i := 0; i < k; i++ {
				t := map[string]any{"title": titles[i]}
				var after []any
				if dense {
					for _, j := range g.rng.Perm(i) {
						if len(after) < 5 {
							after = append(after, titles[j])
						}
					}
				}
				for _, j := range g.rng.Perm(k)[:g.rng.Intn(6)%k] {
					if dense {
						break
					}
					// mostly earlier entries (a DAG); now and then anything (forward references, cycles, self)
					if j < i || g.rng.Intn(6) == 0 {
						after = append(after, titles[j])
					}
				}
				if len(after) > 0 {
					t["after"] = after
				}
				if g.rng.Intn(3) == 0 {
					t["body"] = fmt.Sprintf("body of %s", titles[i])
				}
				ts = append(ts, t)
			}
			return Cmd{"name": "plan", "mode": "json", "doc": map[string]any{"title": fmt.Sprintf("Plan %d", g.n), "tasks": ts}}
		}},
		{3, func() Cmd { return cListReady() }},
		{6, func() Cmd {
			switch g.rng.Intn(5) {
			case 0:
				return Cmd{"name": "list", "mode": "json"}
			case 1:
				return Cmd{"name": "list_all", "mode": "json"}
			case 2:
				return Cmd{"name": "list_epics", "mode": "json"}
			case 3:
				if len(epics) > 0 {
					return Cmd{"name": "list_epic", "mode": "json", "epic": g.pick(epics)}
				}
				return Cmd{"name": "list_all", "mode": "json"}
			default:
				return Cmd{"name": "show", "mode": "json", "id": anyID()}
			}
		}},
	}
	// creation stops at the caps; while the store is small it is favoured
	total := 0
	var live []choice
	for i, ch := range choices {
		if i == 0 && len(tasks) >= g.maxTasks {
			continue
		}
		if i == 1 && len(epics) >= g.maxEpics {
			continue
		}
		if i == 11 && len(tasks) >= g.maxTasks {
			continue
		}
		if len(tasks) < 3 && i > 1 && i != 11 {
			ch.w = (ch.w + 3) / 4
		}
		live = append(live, ch)
		total += ch.w
	}
	r := g.rng.Intn(total)
	for _, ch := range live {
		if r < ch.w {
			return ch.f()
		}
		r -= ch.w
	}
	return cListReady()
}

// bigWalks runs n random histories of the given length; every step is an observation.
func (e *Env) bigWalks(tag string, n, depth int, seed int64) ([]*Obs, error) {
	var mu sync.Mutex
	var all []*Obs
	var firstErr error
	var wg sync.WaitGroup
	sem := make(chan struct{}, 8)
	for w := 0; w < n; w++ {
		wg.Add(1)
		sem <- struct{}{}
		go func(w int) {
			defer wg.Done()
			defer func() { <-sem }()
			root := filepath.Join(e.Scratch, fmt.Sprintf("%s-%d", tag, w))
			st, err := newStore(e.Ergo, root)
			if err != nil {
				mu.Lock()
				if firstErr == nil {
					firstErr = err
				}
				mu.Unlock()
				return
			}
			defer removeAll(root)
			sp := newStepper(st)
			g := &bigGen{rng: rand.New(rand.NewSource(seed*7919 + int64(w))), maxTasks: 14, maxEpics: 7}
			var local []*Obs
			view := View{}
			for k := 0; k < depth; k++ {
				o := sp.step(g.next(view, sp.Gone), tag)
				local = append(local, o)
				if !o.rawPost.Readable {
					break // (the judge reports it; nothing further can be observed)
				}
				view = o.rawPost.View
			}
			mu.Lock()
			all = append(all, local...)
			mu.Unlock()
		}(w)
	}
	wg.Wait()
	return all, firstErr
}
