package main

// C18: directory layouts.  TLC prints every layout (which levels of a nested
// directory chain hold a .ergo, where the command is started, how that
// directory is spelled, which files the store has; spec/ErgoFS.tla); each is
// materialised in a scratch tree with a distinct marker task per log file.
// The harness records which store `where` names, which files each command
// changed (byte hashes) and which markers reads displayed; TLC decides.

import (
	"crypto/sha256"
	"encoding/json"
	"fmt"
	"math/rand"
	"os"
	"path/filepath"
	"regexp"
	"sort"
	"strings"
	"sync"
	"time"
)

type fsCase struct {
	Stores []int  `json:"stores"`
	Start  int    `json:"start"`
	Spell  string `json:"spell"`
	Files  struct {
		Plans  string `json:"plans"`
		Events string `json:"events"`
		Lock   bool   `json:"lock"`
	} `json:"files"`
}

func (c fsCase) viaLink() bool { return strings.HasSuffix(c.Spell, "_link") }

func (c fsCase) physical() int {
	best := 0
	for _, s := range c.Stores {
		if s <= c.Start && s > best {
			best = s
		}
	}
	return best
}

func (c fsCase) resolve() int {
	if c.viaLink() {
		for _, s := range c.Stores {
			if s == c.Start {
				return s
			}
		}
		return 9
	}
	best := 0
	for _, s := range c.Stores {
		if s <= c.Start && s > best {
			best = s
		}
	}
	return best
}

var markerRe = regexp.MustCompile(`M(\d)-(plans|events)`)

func hashTree(levelDir map[int]string) map[string]string {
	out := map[string]string{}
	for lvl, d := range levelDir {
		ents, err := os.ReadDir(filepath.Join(d, ".ergo"))
		if err != nil {
			continue
		}
		for _, en := range ents {
			b, err := os.ReadFile(filepath.Join(d, ".ergo", en.Name()))
			if err != nil {
				continue
			}
			name := en.Name()
			switch name {
			case "plans.jsonl":
				name = "plans"
			case "events.jsonl":
				name = "events"
			case "lock":
			default:
				name = "tmp"
			}
			out[fmt.Sprintf("%d:%s", lvl, name)] = fmt.Sprintf("%x", sha256.Sum256(b))
		}
	}
	return out
}

func diffTree(a, b map[string]string) [][]any {
	set := map[string]bool{}
	for k, v := range a {
		if b[k] != v {
			set[k] = true
		}
	}
	for k, v := range b {
		if a[k] != v {
			set[k] = true
		}
	}
	var keys []string
	for k := range set {
		keys = append(keys, k)
	}
	sort.Strings(keys)
	out := [][]any{}
	for _, k := range keys {
		var lvl int
		var f string
		fmt.Sscanf(strings.Replace(k, ":", " ", 1), "%d %s", &lvl, &f)
		out = append(out, []any{lvl, f})
	}
	return out
}

func (e *Env) runFSCase(c fsCase, idx int) (*Obs, error) {
	base := filepath.Join(e.Scratch, fmt.Sprintf("fs-%d", idx))
	defer removeAll(base)
	levelDir := map[int]string{1: filepath.Join(base, "p1"), 2: filepath.Join(base, "p1", "p2"), 3: filepath.Join(base, "p1", "p2", "p3")}
	elsewhere := filepath.Join(base, "elsewhere")
	for _, d := range []string{levelDir[3], elsewhere} {
		if err := os.MkdirAll(d, 0o755); err != nil {
			return nil, err
		}
	}
	target := c.resolve()
	markerID := map[string]string{}
	storeLevels := append([]int{}, c.Stores...)
	if c.viaLink() {
		// another project with its own store; its `link` points at the start directory
		levelDir[9] = filepath.Join(base, "q1")
		if err := os.MkdirAll(levelDir[9], 0o755); err != nil {
			return nil, err
		}
		if err := os.Symlink(levelDir[c.Start], filepath.Join(levelDir[9], "link")); err != nil {
			return nil, err
		}
		storeLevels = append(storeLevels, 9)
	}
	for _, lvl := range storeLevels {
		ed := filepath.Join(levelDir[lvl], ".ergo")
		if err := os.MkdirAll(ed, 0o755); err != nil {
			return nil, err
		}
		plans, events, lock := "full", "no", true
		if lvl == target || (c.viaLink() && lvl == c.physical()) {
			plans, events, lock = c.Files.Plans, c.Files.Events, c.Files.Lock
		}
		write := func(file, tag string, n int) error {
			id := fmt.Sprintf("i%d", lvl*4+n)
			markerID[fmt.Sprintf("%d:%s", lvl, tag)] = craftID(id)
			line, err := craftLine(map[string]any{"type": "new_task", "id": id, "epic": "", "state": "todo",
				"title": fmt.Sprintf("M%d-%s", lvl, tag), "body": "", "ts": float64(lvl*10 + n)})
			if err != nil {
				return err
			}
			return os.WriteFile(filepath.Join(ed, file), append(line, '\n'), 0o644)
		}
		for _, f := range []struct {
			presence, file, tag string
			n                   int
		}{{plans, "plans.jsonl", "plans", 1}, {events, "events.jsonl", "events", 2}} {
			switch f.presence {
			case "full":
				if err := write(f.file, f.tag, f.n); err != nil {
					return nil, err
				}
			case "empty":
				if err := os.WriteFile(filepath.Join(ed, f.file), nil, 0o644); err != nil {
					return nil, err
				}
			}
		}
		if lock {
			_ = os.WriteFile(filepath.Join(ed, "lock"), nil, 0o644)
		}
	}
	st := &Store{Root: base, Bin: e.Ergo}
	var cwd string
	var pre []string
	sd := levelDir[c.Start]
	switch c.Spell {
	case "cwd":
		cwd = sd
	case "dir_abs":
		cwd, pre = elsewhere, []string{"--dir", sd}
	case "dir_dot":
		cwd, pre = sd, []string{"--dir", "."}
	case "dir_dotdot":
		cwd, pre = levelDir[c.Start+1], []string{"--dir", ".."}
	case "dir_child":
		cwd, pre = levelDir[c.Start-1], []string{"--dir", filepath.Base(sd)}
	case "ergo_abs":
		cwd, pre = elsewhere, []string{"--dir", filepath.Join(sd, ".ergo")}
	case "ergo_rel":
		cwd, pre = sd, []string{"--dir", ".ergo"}
	case "cwd_link":
		cwd = filepath.Join(levelDir[9], "link")
	case "dir_dot_link":
		cwd, pre = filepath.Join(levelDir[9], "link"), []string{"--dir", "."}
	case "dir_abs_link":
		cwd, pre = elsewhere, []string{"--dir", filepath.Join(levelDir[9], "link")}
	}
	// $PWD as a shell would set it: the path the user walked, links included
	runAt := func(cwd string, pre []string, stdin []byte, args ...string) RunResult {
		return st.runIn(cwd, stdin, []string{"PWD=" + cwd}, 15*time.Second, append(append([]string{}, pre...), args...)...)
	}
	run := func(stdin []byte, args ...string) RunResult { return runAt(cwd, pre, stdin, args...) }
	whereOf := func(rw RunResult) int {
		where := 0
		if rw.Exit == 0 {
			var w struct {
				ErgoDir string `json:"ergo_dir"`
			}
			_ = json.Unmarshal(rw.Stdout, &w)
			named, err := filepath.EvalSymlinks(w.ErgoDir)
			if err != nil {
				named = w.ErgoDir
			}
			for lvl, d := range levelDir {
				if real, _ := filepath.EvalSymlinks(filepath.Join(d, ".ergo")); real == named || filepath.Join(d, ".ergo") == w.ErgoDir {
					where = lvl
				}
			}
			if where == 0 {
				where = 8 // names a directory that is not one of the stores
			}
		}
		return where
	}
	where := whereOf(run(nil, "--json", "where"))
	linkWheres := []int{}
	if c.viaLink() {
		ln := filepath.Join(levelDir[9], "link")
		linkWheres = append(linkWheres,
			whereOf(runAt(ln, nil, nil, "--json", "where")),
			whereOf(runAt(ln, []string{"--dir", "."}, nil, "--json", "where")),
			whereOf(runAt(elsewhere, []string{"--dir", ln}, nil, "--json", "where")))
		if where != 0 && where != 8 {
			target = where // the reading of "enclosing" the binary follows; C18_where judges it
		}
	}
	logTag := "plans"
	if c.Files.Plans == "no" && c.Files.Events != "no" {
		logTag = "events"
	}
	mid := markerID[fmt.Sprintf("%d:%s", target, logTag)]
	if mid == "" {
		mid = "ZZZZZZ"
	}
	type cmdSpec struct {
		name     string
		mutating bool
		stdin    []byte
		args     []string
	}
	specs := []cmdSpec{
		{"list", false, nil, []string{"--json", "list", "--all"}},
		{"new_task", true, []byte(`{"title":"added"}`), []string{"--json", "new", "task"}},
		{"list2", false, nil, []string{"--json", "list", "--all"}},
		{"new_epic", true, []byte(`{"title":"an epic"}`), []string{"--json", "new", "epic"}},
		{"claim", true, nil, []string{"--json", "claim", "--agent", "a1"}},
		{"prune_dry", false, nil, []string{"--json", "prune"}},
		{"plan", true, []byte(`{"title":"P","tasks":[{"title":"x"}]}`), []string{"--json", "plan"}},
		{"compact", true, nil, []string{"--json", "compact"}},
		{"list3", false, nil, []string{"--json", "list", "--all"}},
	}
	if mid != "ZZZZZZ" {
		specs = append([]cmdSpec{{"show", false, nil, []string{"--json", "show", mid}},
			{"set", true, []byte(`{"body":"touched"}`), []string{"--json", "set", mid}}}, specs...)
	}
	cmds := []map[string]any{}
	for _, sp := range specs {
		before := hashTree(levelDir)
		r := run(sp.stdin, sp.args...)
		after := hashTree(levelDir)
		saw := [][]any{}
		seen := map[string]bool{}
		for _, m := range markerRe.FindAllStringSubmatch(string(r.Stdout), -1) {
			k := m[1] + ":" + m[2]
			if !seen[k] {
				seen[k] = true
				var lvl int
				fmt.Sscanf(m[1], "%d", &lvl)
				saw = append(saw, []any{lvl, m[2]})
			}
		}
		exit := r.Exit
		if sp.name == "claim" && r.Exit == 0 && strings.Contains(string(r.Stdout), "no_ready") {
			// nothing ready: a read as far as the file system is concerned
			sp.mutating = false
		}
		if sp.name == "compact" && r.Exit == 0 {
			// compaction of an already compact log rewrites the same bytes
			sp.mutating = false
		}
		cmds = append(cmds, map[string]any{"name": sp.name, "mutating": sp.mutating, "exit": exit,
			"touched": diffTree(before, after), "saw": saw, "stderr": strings.TrimSpace(string(r.Stderr))})
	}
	lockAfter := false
	if target != 0 {
		_, err := os.Stat(filepath.Join(levelDir[target], ".ergo", "lock"))
		lockAfter = err == nil
	}
	// init, run in the project directory of the resolved store
	initRec := map[string]any{"ran": false, "exit": 0, "changed_existing": false, "same_items": true}
	if target != 0 {
		listIn := func() string {
			r := st.runIn(levelDir[target], nil, nil, 15*time.Second, "--json", "list", "--all")
			return fmt.Sprintf("%d|%s", r.Exit, r.Stdout)
		}
		l0 := listIn()
		// three spellings of the same request: `init` in the project directory, `init .`
		// there, and `init <absolute project directory>` from somewhere else
		exit, changed, same := 0, false, true
		for _, form := range [][2]string{{levelDir[target], ""}, {levelDir[target], "."}, {elsewhere, levelDir[target]}} {
			before := hashTree(levelDir)
			args := []string{"--json", "init"}
			if form[1] != "" {
				args = append(args, form[1])
			}
			r := st.runIn(form[0], nil, nil, 15*time.Second, args...)
			after := hashTree(levelDir)
			for k, v := range before {
				if nv, ok := after[k]; !ok || nv != v {
					changed = true
				}
			}
			if r.Exit != 0 {
				exit = r.Exit
			}
			if l0 != listIn() {
				same = false
			}
		}
		initRec = map[string]any{"ran": true, "exit": exit, "changed_existing": changed, "same_items": same}
	}
	cfg := map[string]any{"stores": c.Stores, "start": c.Start, "spell": c.Spell,
		"files": map[string]any{"plans": c.Files.Plans, "events": c.Files.Events, "lock": c.Files.Lock}}
	fs := map[string]any{"cfg": cfg, "where": where, "link_wheres": linkWheres, "cmds": cmds, "lock_after": lockAfter, "init": initRec}
	o := &Obs{Tag: "e7", Cmd: Cmd{"name": "layout", "mode": "json", "cfg": cfg},
		Reply: Reply{IDs: []string{}, Edges: [][2]string{}, Pruned: []string{}}, Out: outFacts{JSON: true, Values: 1},
		Pre: map[string]any{}, Post: map[string]any{}, LogPre: []map[string]any{}, LogPost: []map[string]any{}, Gone: []string{},
		Readable: true, ListShow: true, Facts: map[string]any{"spell": c.Spell},
		Only:  []string{"C18_where", "C18_same_store", "C18_lands", "C18_reads_work", "C18_lock", "C18_init"},
		Procs: []procRec{}, Readers: []readerRec{}, After: []afterRec{}, FS: fs}
	return o, nil
}

type FSCheck struct{}

func (FSCheck) Run(e *Env) (*Outcome, *Evidence, error) {
	thorough := e.Tier == "thorough"
	cfg := "INIT Init\nNEXT Next\nCONSTANT Dev = {}\nINVARIANTS IdealAgrees NearestEnclosing\n"
	res, err := e.runTLC("fs", "MC_FS", cfg, 1, 5*time.Minute)
	if err != nil {
		return nil, nil, err
	}
	if !res.NoError || len(res.Lines) == 0 {
		return nil, nil, fatalf("TLC rejects the layout model or printed no layouts:\n%s", tail(res.Out, 30))
	}
	var cases []fsCase
	if err := json.Unmarshal([]byte(res.Lines[0]), &cases); err != nil {
		return nil, nil, fatalf("layouts: %v", err)
	}
	total := len(cases)
	if !thorough {
		cases = sample(cases, 500, rand.New(rand.NewSource(e.Seed)))
	}
	var mu sync.Mutex
	var obs []*Obs
	var firstErr error
	ch := make(chan int)
	var wg sync.WaitGroup
	for w := 0; w < 16; w++ {
		wg.Add(1)
		go func() {
			defer wg.Done()
			for i := range ch {
				o, err := e.runFSCase(cases[i], i)
				mu.Lock()
				if err != nil && firstErr == nil {
					firstErr = err
				}
				if o != nil {
					obs = append(obs, o)
				}
				mu.Unlock()
			}
		}()
	}
	for i := range cases {
		ch <- i
	}
	close(ch)
	wg.Wait()
	if firstErr != nil {
		return nil, nil, firstErr
	}
	fails, js, err := e.judge("C18", obs)
	if err != nil {
		return nil, nil, err
	}
	findings, err := loadFindings()
	if err != nil {
		return nil, nil, err
	}
	out := classify("C18", fails, findings)
	var samples []any
	for _, o := range obs[:min(3, len(obs))] {
		samples = append(samples, o.FS)
	}
	cov := map[string]any{"evaluations": len(obs) * 12, "distinct_nontrivial": len(obs),
		"rule":    "layouts = store levels x start level x spelling x file presence enumerated by TLC (spec/ErgoFS.tla RealLayouts); each materialised with a marker task per log file and exercised with where/list/show/set/new/claim/prune/plan/compact/init; distinct by layout",
		"samples": samples, "layouts_total": total, "layouts_run": len(obs), "exhaustive": len(obs) == total, "judged_records": js.Records}
	ev := &Evidence{Level: "exploration", Coverage: cov, Assumptions: []string{
		"directory chains of depth 3; the non-target stores of a layout hold plans.jsonl + lock",
		"which file a command used is inferred from byte hashes of every file under every .ergo before and after it"}}
	return out, ev, nil
}

func init() {
	registry["C18"] = func() Check { return FSCheck{} }
}
