package main

// check: the command-line entry point of the verification machinery.
//
//   check run <property> [--tier quick|thorough]
//   check replay <path>
//   check list
//
// Exit status: 0 = the property held on everything explored (KNOWN-FINDING
// lines allowed); 1 = at least one unlisted violation, each with a line
// "VIOLATION property=<id> replay=<path>"; 2 = the machinery could not do its
// job (never accompanied by a VIOLATION line).

import (
	"encoding/json"
	"errors"
	"fmt"
	"os"
	"path/filepath"
	"sort"
	"time"
)

type Evidence struct {
	PropertyID  string         `json:"property_id"`
	Tier        string         `json:"tier"`
	Seed        int64          `json:"seed"`
	Level       string         `json:"level"`
	Coverage    map[string]any `json:"coverage"`
	Assumptions []string       `json:"assumptions"`
	WallS       float64        `json:"wall_s"`
	Violations  int            `json:"violations"`
}

func writeEvidence(ev *Evidence) error {
	dir := filepath.Join(verifDir, "evidence")
	if err := os.MkdirAll(dir, 0o755); err != nil {
		return err
	}
	b, err := json.MarshalIndent(ev, "", " ")
	if err != nil {
		return err
	}
	return os.WriteFile(filepath.Join(dir, ev.PropertyID+".json"), append(b, '\n'), 0o644)
}

type Check interface {
	Run(e *Env) (*Outcome, *Evidence, error)
}

func main() {
	if len(os.Args) < 2 {
		usage()
	}
	switch os.Args[1] {
	case "run":
		if len(os.Args) < 3 {
			usage()
		}
		prop := os.Args[2]
		tier := ""
		for i := 3; i < len(os.Args); i++ {
			if os.Args[i] == "--tier" && i+1 < len(os.Args) {
				tier = os.Args[i+1]
				i++
			}
		}
		os.Exit(runCheck(prop, tier))
	case "replay":
		if len(os.Args) < 3 {
			usage()
		}
		os.Exit(replay(os.Args[2]))
	case "selftest":
		os.Exit(selftest())
	case "list":
		names := make([]string, 0, len(registry))
		for k := range registry {
			names = append(names, k)
		}
		sort.Strings(names)
		for _, n := range names {
			fmt.Println(n)
		}
	default:
		usage()
	}
}

func usage() {
	fmt.Fprintln(os.Stderr, "usage: check run <property> [--tier quick|thorough] | check replay <path> | check list")
	os.Exit(2)
}

func runCheck(prop, tier string) int {
	mk, ok := registry[prop]
	if !ok {
		fmt.Fprintf(os.Stderr, "no check registered for %s\n", prop)
		return 2
	}
	env, err := newEnv(tier)
	if err != nil {
		fmt.Fprintln(os.Stderr, "error:", err)
		return 2
	}
	defer env.Close()
	if err := env.buildErgo(); err != nil {
		fmt.Fprintln(os.Stderr, "MACHINERY-ERROR:", err)
		return 2
	}
	if err := hookSelfTest(env); err != nil {
		fmt.Fprintln(os.Stderr, "MACHINERY-ERROR:", err)
		return 2
	}
	out, ev, err := mk().Run(env)
	if err != nil {
		var me machineryError
		if errors.As(err, &me) {
			fmt.Fprintln(os.Stderr, "MACHINERY-ERROR:", me.msg)
		} else {
			fmt.Fprintln(os.Stderr, "MACHINERY-ERROR:", err)
		}
		return 2
	}
	if len(out.Violations) > 0 {
		if err := env.confirm(out); err != nil {
			fmt.Fprintln(os.Stderr, "MACHINERY-ERROR: cannot re-execute violations:", err)
			return 2
		}
	}
	status := out.report()
	ev.PropertyID = prop
	ev.Tier = env.Tier
	ev.Seed = env.Seed
	ev.WallS = time.Since(env.Start).Seconds()
	ev.Violations = len(out.Violations)
	if ev.Coverage == nil {
		ev.Coverage = map[string]any{}
	}
	ev.Coverage["known_findings_hit"] = out.Known
	ev.Coverage["model_drift"] = out.Drift
	ev.Coverage["other_property_clause_failures"] = out.Other
	ev.Coverage["unreproduced"] = out.Unrepro
	if err := writeEvidence(ev); err != nil {
		fmt.Fprintln(os.Stderr, "MACHINERY-ERROR: cannot write evidence:", err)
		return 2
	}
	if out.Unrepro > 0 {
		fmt.Fprintf(os.Stderr, "note: %d reported step(s) did not fail again when re-executed from a fresh store; they are not reported (see evidence: unreproduced)\n", out.Unrepro)
	}
	if len(out.Drift) > 0 {
		fmt.Fprintf(os.Stderr, "note: model drift (observed steps that are not steps of the as-is spec): %v\n", out.Drift)
	}
	fmt.Printf("%s %s: %s (%.0fs)\n", prop, env.Tier, map[int]string{0: "held", 1: "VIOLATED"}[status], ev.WallS)
	return status
}

// hookSelfTest: the binary under test must carry the hooks (a sync point must
// be reported), otherwise schedules and traces mean nothing.
func hookSelfTest(e *Env) error {
	root := filepath.Join(e.Scratch, "selftest")
	st, err := newStore(e.Ergo, root)
	if err != nil {
		return err
	}
	trace := filepath.Join(e.Scratch, "selftest.trace")
	r := st.run([]byte(`{"title":"self test"}`), []string{"ERGO_VERIF_TRACE=" + trace}, "--json", "new", "task")
	b, _ := os.ReadFile(trace)
	_ = os.RemoveAll(root)
	_ = os.Remove(trace)
	_ = r
	if len(b) == 0 {
		return fatalf("self test: the binary built from /repo reports no sync points (hooks missing?)")
	}
	return nil
}

func replay(path string) int {
	b, err := os.ReadFile(path)
	if err != nil {
		fmt.Fprintln(os.Stderr, err)
		return 2
	}
	var rec struct {
		Property string           `json:"property"`
		Clause   string           `json:"clause"`
		Base     []map[string]any `json:"base"`
		History  []Cmd            `json:"history"`
		Cmd      Cmd              `json:"cmd"`
		Engine   string           `json:"engine"`
	}
	if err := json.Unmarshal(b, &rec); err != nil {
		fmt.Fprintln(os.Stderr, err)
		return 2
	}
	env, err := newEnv("quick")
	if err != nil {
		return 2
	}
	defer env.Close()
	if err := env.buildErgo(); err != nil {
		fmt.Fprintln(os.Stderr, err)
		return 2
	}
	obs, _, err := env.driveStates("replay", []emitted{{Base: rec.Base, Hist: rec.History, Alpha: []Cmd{rec.Cmd}}}, false, 1)
	if err != nil {
		fmt.Fprintln(os.Stderr, err)
		return 2
	}
	fails, _, err := env.judge("replay", obs)
	if err != nil {
		fmt.Fprintln(os.Stderr, err)
		return 2
	}
	for _, o := range obs {
		fmt.Printf("step: %s\n  stdout: %s  stderr: %s", o.describe(), o.stdout, o.stderr)
	}
	hit := false
	for _, f := range fails {
		fmt.Printf("clause %s FAILED on %s\n", f.Clause, f.Obs.describe())
		if f.Clause == rec.Clause {
			hit = true
		}
	}
	if hit {
		fmt.Printf("VIOLATION property=%s replay=%s\n", rec.Property, path)
		return 1
	}
	fmt.Println("not reproduced")
	return 0
}
