package main

// C12, file-content half (E5): TLC prints the case matrix of spec/ErgoLines.tla
// (line class x position x final newline x command); each case is written as a
// real log file with seeded bytes for the class, the command is run TWICE and
// the harness reports facts (exit status, timeout, whether stderr names
// path:line, byte equality of the two runs and of the file before/after).

import (
	"bytes"
	"encoding/json"
	"fmt"
	"math/rand"
	"os"
	"path/filepath"
	"regexp"
	"strings"
	"sync"
	"time"
)

type lineCase struct {
	Class string `json:"class"`
	Pos   string `json:"pos"`
	NL    bool   `json:"nl"`
	Cmd   string `json:"cmd"`
}

func validLine(ev map[string]any) string {
	b, _ := craftLine(ev)
	return string(b)
}

func classLine(class string, rng *rand.Rand) string {
	good := validLine(map[string]any{"type": "new_task", "id": "i9", "epic": "", "state": "todo", "title": "extra", "body": "", "ts": float64(50)})
	switch class {
	case "valid":
		return good
	case "blank":
		return []string{"", "   ", "\t"}[rng.Intn(3)]
	case "garbage":
		return []string{"this is not json", "{\"type\":\"new_task\",", "}{", "\x7f\x80\xfe binary \x01", "{'single':'quotes'}"}[rng.Intn(5)]
	case "conflict":
		return []string{"<<<<<<< HEAD", "=======", ">>>>>>> feature-branch"}[rng.Intn(3)]
	case "nonobject":
		return []string{"42", "[]", "\"string\"", "true", "[{\"type\":\"state\"}]"}[rng.Intn(5)]
	case "truncated":
		return good[:1+rng.Intn(len(good)-2)]
	case "longutf8":
		return "{\"type\":\"x\",\"data\":{\"t\":\"" + strings.Repeat("漢字", 30+rng.Intn(10)) // > 160 bytes, < 160 runes, unterminated
	case "nul":
		return good[:10] + "\x00\x00" + good[10:]
	case "bom":
		return "\ufeff" + good
	case "overlong":
		return "{\"type\":\"body\",\"ts\":\"2026-01-01T00:00:00Z\",\"data\":{\"id\":\"AAAAAA\",\"body\":\"" + strings.Repeat("x", 11*1024*1024) + "\"}}"
	case "unknown_type":
		return `{"type":"future_event","ts":"2026-01-01T00:00:40Z","data":{"id":"CRAFAB","x":1}}`
	case "empty_object":
		return []string{"{}", "null", `{"ts":"2026-01-01T00:00:00Z"}`}[rng.Intn(3)]
	case "wrong_field_type":
		return []string{`{"type":"state","ts":"2026-01-01T00:00:40Z","data":{"id":5,"state":"done","ts":"2026-01-01T00:00:40Z"}}`,
			`{"type":"new_task","ts":"2026-01-01T00:00:40Z","data":"not an object"}`, `{"type":"state"}`,
			`{"type":"claim","ts":"2026-01-01T00:00:40Z","data":{"id":"CRAFAB","agent_id":["a"],"ts":"2026-01-01T00:00:40Z"}}`}[rng.Intn(4)]
	case "bad_timestamp":
		return `{"type":"state","ts":"yesterday","data":{"id":"CRAFAB","state":"done","ts":"yesterday"}}`
	case "duplicate_create":
		return validLine(map[string]any{"type": "new_task", "id": "i1", "epic": "", "state": "todo", "title": "dup", "body": "", "ts": float64(51)})
	case "event_before_create":
		return validLine(map[string]any{"type": "state", "id": "i8", "state": "done", "ts": float64(1)})
	case "tie_timestamps":
		// four epics created at the same instant
		var ls []string
		for k := 20; k < 24; k++ {
			ls = append(ls, validLine(map[string]any{"type": "new_epic", "id": fmt.Sprintf("i%d", k), "epic": "", "state": "todo", "title": fmt.Sprintf("tie %d", k), "body": "", "ts": float64(60)}))
		}
		return strings.Join(ls, "\n")
	case "many_edges":
		// valid lines: several tasks that i1 depends on (two, so that a rendering which names the
		// blockers has an order to get wrong) and several that depend on it
		var ls []string
		for k := 30; k < 35; k++ {
			ls = append(ls, validLine(map[string]any{"type": "new_task", "id": fmt.Sprintf("i%d", k), "epic": "", "state": "todo", "title": fmt.Sprintf("dep %d", k), "body": "", "ts": float64(k)}))
		}
		for _, e := range [][2]string{{"i1", "i30"}, {"i1", "i31"}, {"i32", "i1"}, {"i33", "i1"}, {"i34", "i1"}, {"i34", "i30"}, {"i34", "i31"}, {"i34", "i32"}} {
			ls = append(ls, validLine(map[string]any{"type": "link", "from": e[0], "to": e[1], "ts": float64(0)}))
		}
		return strings.Join(ls, "\n")
	case "dep_cycle":
		// hand-merged link events that form a dependency cycle i1 -> i3 -> i1
		return validLine(map[string]any{"type": "link", "from": "i1", "to": "i3", "ts": float64(0)}) + "\n" +
			validLine(map[string]any{"type": "link", "from": "i3", "to": "i1", "ts": float64(0)}) + "\n" +
			validLine(map[string]any{"type": "new_task", "id": "i4", "epic": "", "state": "todo", "title": "outside the cycle", "body": "", "ts": float64(80)})
	case "deep_nesting":
		return `{"type":"future","ts":"2026-01-01T00:00:40Z","data":` + strings.Repeat("[", 5000) + strings.Repeat("]", 5000) + `}`
	case "huge_valid_body":
		return validLine(map[string]any{"type": "body", "id": "i1", "text": strings.Repeat("lorem ipsum ", 200000), "ts": float64(52)})
	}
	return good
}

func (e *Env) runLineCase(c lineCase, idx int, seed int64) (*Obs, error) {
	rng := rand.New(rand.NewSource(seed*104729 + int64(idx)))
	root := filepath.Join(e.Scratch, fmt.Sprintf("ln-%d", idx))
	st, err := newStore(e.Ergo, root)
	if err != nil {
		return nil, err
	}
	defer removeAll(root)
	head := []string{
		validLine(map[string]any{"type": "new_epic", "id": "i2", "epic": "", "state": "todo", "title": "E", "body": "", "ts": float64(1)}),
		validLine(map[string]any{"type": "new_task", "id": "i1", "epic": "i2", "state": "todo", "title": "T1", "body": "b", "ts": float64(2)}),
	}
	tailLines := []string{
		validLine(map[string]any{"type": "new_task", "id": "i3", "epic": "", "state": "todo", "title": "T3", "body": "", "ts": float64(70)}),
		validLine(map[string]any{"type": "state", "id": "i3", "state": "done", "ts": float64(71)}),
	}
	special := classLine(c.Class, rng)
	var lines []string
	lineNo := 0
	if c.Pos == "middle" {
		lines = append(append(append(lines, head...), special), tailLines...)
		lineNo = len(head) + 1
	} else {
		lines = append(append(append(lines, head...), tailLines...), special)
		lineNo = len(head) + len(tailLines) + 1
	}
	content := strings.Join(lines, "\n")
	if c.NL {
		content += "\n"
	}
	logPath := filepath.Join(st.ErgoDir(), "plans.jsonl")
	if err := os.WriteFile(logPath, []byte(content), 0o644); err != nil {
		return nil, err
	}
	t1 := craftID("i1")
	var args []string
	var stdin []byte
	jsonCmd := true
	switch c.Cmd {
	case "list":
		args = []string{"--json", "list", "--all"}
	case "list_epics":
		args = []string{"--json", "list", "--epics"}
	case "list_ready":
		args = []string{"--json", "list", "--ready"}
	case "show":
		args = []string{"--json", "show", t1}
	case "list_human":
		args, jsonCmd = []string{"list"}, false
	case "list_all_human":
		args, jsonCmd = []string{"list", "--all"}, false
	case "show_human":
		args, jsonCmd = []string{"show", t1}, false
	case "show_epic_human":
		args, jsonCmd = []string{"show", craftID("i2")}, false
	case "prune_dry":
		args = []string{"--json", "prune"}
	case "where":
		args = []string{"--json", "where"}
	case "quickstart":
		args, jsonCmd = []string{"quickstart"}, false
	case "claim":
		args = []string{"--json", "claim", "--agent", "a1"}
	case "new_task":
		args, stdin = []string{"--json", "new", "task"}, []byte(`{"title":"added"}`)
	case "set":
		args, stdin = []string{"--json", "set", t1}, []byte(`{"body":"changed"}`)
	case "sequence":
		args = []string{"--json", "sequence", craftID("i3"), t1}
	case "sequence_new":
		// an edge from a task outside a (hand-merged) cycle into it: the reachability walk must terminate
		args = []string{"--json", "sequence", t1, craftID("i4")}
	case "sequence_rm":
		args = []string{"--json", "sequence", "rm", t1, craftID("i3")}
	case "compact":
		args = []string{"--json", "compact"}
	case "prune":
		args = []string{"--json", "prune", "--yes"}
	}
	readOnly := map[string]bool{"list": true, "list_epics": true, "list_ready": true, "show": true, "prune_dry": true, "where": true, "quickstart": true,
		"list_human": true, "list_all_human": true, "show_human": true, "show_epic_human": true}[c.Cmd]
	before, _ := os.ReadFile(logPath)
	r1 := st.runIn(st.Root, stdin, nil, 30*time.Second, args...)
	after, _ := os.ReadFile(logPath)
	same := true
	if readOnly {
		// same log, same output: repeat a few times (map iteration order varies between runs)
		for k := 0; k < 7 && same; k++ {
			r2 := st.runIn(st.Root, stdin, nil, 30*time.Second, args...)
			same = r2.Exit == r1.Exit && bytes.Equal(r2.Stdout, r1.Stdout) && bytes.Equal(r2.Stderr, r1.Stderr)
		}
	} else {
		// restore the file and repeat the mutation: only the exit status and the error text can be compared
		_ = os.WriteFile(logPath, before, 0o644)
		_ = os.Remove(logPath + ".tmp")
		r2 := st.runIn(st.Root, stdin, nil, 30*time.Second, args...)
		same = r2.Exit == r1.Exit && bytes.Equal(r2.Stderr, r1.Stderr)
	}
	stdoutOK := true
	if jsonCmd && r1.Exit == 0 {
		n, trailing, _ := countJSONValues(r1.Stdout)
		stdoutOK = n == 1 && !trailing
	}
	// "names the file and line": the log's file name and the line number as a number of its own
	names := strings.Contains(string(r1.Stderr), "plans.jsonl") &&
		regexp.MustCompile(fmt.Sprintf(`(^|[^0-9])%d([^0-9]|$)`, lineNo)).MatchString(string(r1.Stderr))
	rec := map[string]any{"case": c, "exit": r1.Exit, "timeout": r1.TimedOut, "stderr": len(bytes.TrimSpace(r1.Stderr)) > 0,
		"stdout_ok": stdoutOK, "names_line": names, "same_twice": same, "bytes_unchanged": bytes.Equal(before, after)}
	o := &Obs{Tag: "e5l", Cmd: Cmd{"name": "filecase", "mode": "json", "case": c}, Exit: r1.Exit,
		Reply: Reply{IDs: []string{}, Edges: [][2]string{}, Pruned: []string{}}, Out: outFacts{JSON: jsonCmd},
		Pre: map[string]any{}, Post: map[string]any{}, LogPre: []map[string]any{}, LogPost: []map[string]any{}, Gone: []string{},
		Readable: true, ListShow: true, Faithful: true, Facts: map[string]any{"class": c.Class, "stderr_text": firstLine(string(r1.Stderr))},
		Only:  []string{"C12_file_total", "C12_file_names_line", "C12_file_shows", "C12_file_deterministic", "C12_file_pure"},
		Procs: []procRec{}, Readers: []readerRec{}, After: []afterRec{}, Lines: rec}
	o.stderr = string(r1.Stderr)
	return o, nil
}

func firstLine(s string) string {
	if i := strings.IndexByte(s, '\n'); i >= 0 {
		s = s[:i]
	}
	if len(s) > 200 {
		s = s[:200]
	}
	return s
}

// fileCases is the Extra driver of the C12 check.
func fileCases(e *Env, cov map[string]any) ([]*Obs, error) {
	res, err := e.runTLC("lines", "MC_Lines", "INIT Init\nNEXT Next\nINVARIANT ClassesPartition\n", 1, 5*time.Minute)
	if err != nil {
		return nil, err
	}
	if !res.NoError || len(res.Lines) == 0 {
		return nil, fatalf("TLC rejects the file-content model or printed no cases:\n%s", tail(res.Out, 30))
	}
	var cases []lineCase
	if err := json.Unmarshal([]byte(res.Lines[0]), &cases); err != nil {
		return nil, fatalf("line cases: %v", err)
	}
	if e.Tier != "thorough" {
		rng := rand.New(rand.NewSource(e.Seed))
		var small, big []lineCase
		for _, c := range cases {
			if c.Class == "overlong" || c.Class == "huge_valid_body" {
				big = append(big, c)
			} else {
				small = append(small, c)
			}
		}
		cases = append(sample(small, 500, rng), sample(big, 12, rng)...)
	}
	var mu sync.Mutex
	var obs []*Obs
	var firstErr error
	ch := make(chan int)
	var wg sync.WaitGroup
	for w := 0; w < 12; w++ {
		wg.Add(1)
		go func() {
			defer wg.Done()
			for i := range ch {
				o, err := e.runLineCase(cases[i], i, e.Seed)
				mu.Lock()
				if err != nil && firstErr == nil {
					firstErr = err
				}
				if o != nil {
					obs = append(obs, o)
				}
				mu.Unlock()
			}
		}()
	}
	for i := range cases {
		ch <- i
	}
	close(ch)
	wg.Wait()
	return obs, firstErr
}
