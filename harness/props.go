package main

// Registry: which model family, bounds and engines decide which property.

var allStates = []string{"todo", "doing", "done", "blocked", "canceled", "error"}

func with(m SeqModel, f func(*SeqModel)) SeqModel { f(&m); return m }

// states and claims: the full request cross product on one or two tasks
func famState(depth int) SeqModel {
	return SeqModel{Name: "state", MaxTasks: 2, MaxEpics: 1, Depth: depth,
		Agents: []string{"a1", "a2"}, CmdNames: []string{"new_task", "new_epic", "set", "claim_id", "claim"},
		StateArgs: append(append([]string{}, allStates...), "bogus"), ClaimArgs: []string{"", "a1"},
		Extras: []string{}, ViewMode: "graph"}
}

// items and edges: dependency graph, epic membership, prune
func famGraph(tasks, epics, depth int) SeqModel {
	return SeqModel{Name: "graph", MaxTasks: tasks, MaxEpics: epics, Depth: depth,
		Agents: []string{"a1"}, CmdNames: []string{"new_task", "new_epic", "sequence", "sequence_rm", "set", "prune"},
		StateArgs: []string{"done", "todo"}, ClaimArgs: []string{},
		Extras: []string{"set_epic"}, ViewMode: "graph"}
}

// ids that must be refused: pruned, unknown, wrong kind
func famIds(tasks, epics, depth int) SeqModel {
	return SeqModel{Name: "ids", MaxTasks: tasks, MaxEpics: epics, Depth: depth,
		Agents: []string{"a1"}, CmdNames: []string{"new_task", "new_epic", "sequence", "sequence_rm", "set", "prune", "prune_dry", "compact", "claim_id", "claim"},
		StateArgs: []string{"done", "canceled", "todo"}, ClaimArgs: []string{},
		Extras: []string{"set_epic", "badid", "badepic"}, ViewMode: "graph"}
}

// readiness: states x dependencies x epic dependencies
func famReady(tasks, epics, depth int) SeqModel {
	return SeqModel{Name: "ready", MaxTasks: tasks, MaxEpics: epics, Depth: depth,
		Agents: []string{"a1"}, CmdNames: []string{"new_task", "new_epic", "sequence", "set", "claim", "list_ready", "prune"},
		StateArgs: []string{"done", "canceled", "blocked", "todo", "doing", "error"}, ClaimArgs: []string{},
		Extras: []string{"claim_epic"}, ViewMode: "graph"}
}

// plan documents
func famPlan(depth int) SeqModel {
	return SeqModel{Name: "plan", MaxTasks: 5, MaxEpics: 2, Depth: depth,
		Agents: []string{"a1"}, CmdNames: []string{"new_task", "plan", "set", "sequence", "prune"},
		StateArgs: []string{"done"}, ClaimArgs: []string{},
		Extras: []string{}, PlanDocs: "DocsAll", ViewMode: "graph"}
}

// everything, small
func famFull(depth int) SeqModel {
	return SeqModel{Name: "full", MaxTasks: 2, MaxEpics: 1, Depth: depth,
		Agents: []string{"a1"}, CmdNames: []string{"new_task", "new_epic", "set", "claim_id", "claim", "sequence", "sequence_rm",
			"prune", "prune_dry", "compact", "plan", "list_ready", "reads"},
		StateArgs: []string{"doing", "done", "error", "todo", "bogus"}, ClaimArgs: []string{"", "a1"},
		Extras: []string{"set_epic", "badid", "badepic", "text", "results", "chains"}, PlanDocs: "DocsSmall", ViewMode: "graph"}
}

// compaction with meta-data: timed view
func famCompact(depth int) SeqModel {
	return SeqModel{Name: "compact", MaxTasks: 1, MaxEpics: 2, Depth: depth,
		Agents: []string{"a1", "a2"}, CmdNames: []string{"new_task", "new_epic", "set", "claim", "compact", "prune"},
		StateArgs: []string{"todo", "done", "doing"}, ClaimArgs: []string{},
		Extras: []string{"set_epic", "text", "results"}, ViewMode: "timed"}
}

func famResults(depth int) SeqModel {
	return SeqModel{Name: "results", MaxTasks: 2, MaxEpics: 1, Depth: depth,
		Agents: []string{"a1"}, CmdNames: []string{"new_task", "new_epic", "set", "prune", "compact"},
		StateArgs: []string{"done", "todo"}, ClaimArgs: []string{},
		Extras: []string{"results", "paths", "badid", "set_epic"}, ViewMode: "graph"}
}

// crafted stores (3 tasks, 2 epics, every state/claim/membership/dependency
// combination) x read-ish and whole-store commands
func famCraft(n int, cmds ...string) SeqModel {
	return SeqModel{Name: "crafted", MaxTasks: 4, MaxEpics: 3, Depth: 1,
		Agents: []string{"a2"}, CmdNames: cmds,
		StateArgs: []string{}, ClaimArgs: []string{}, Extras: []string{"claim_epic"}, ViewMode: "log",
		CraftN: n, CraftTasks: 3, CraftEpics: 2}
}

// hand-merged logs (the events of a pruned item in every order)
func famMerged(n int, cmds ...string) SeqModel {
	m := famCraft(n, cmds...)
	m.Name, m.CraftMerged, m.MaxTasks, m.MaxEpics = "merged", true, 4, 0
	m.Extras = []string{"badid"}
	return m
}

func famLegacy(n int, cmds ...string) SeqModel {
	m := famCraft(n, cmds...)
	m.Name, m.CraftLegacy = "legacy", true
	return m
}

// the full family with all three input modes (json stdin, flags, --body-stdin)
func famFullModes(depth int) SeqModel {
	return with(famFull(depth), func(m *SeqModel) { m.Extras = append(m.Extras, "modes"); m.Name = "full+modes" })
}

func init() {
	registry["C06"] = func() Check {
		return &SeqCheck{Prop: "C06",
			Ideal: famState(5), IdealProps: []string{"P_C06", "P_C10"}, IdealInvs: []string{"CodeReadyIsSpecReady"}, Probes: probeBlankAgents, Extra: inductiveClaimRule,
			Proc:     &ProcCheck{Prop: "C06", Scenarios: "StateScenarios", IdealInvs: []string{"Serializable"}, Only: []string{"C06_serial", "C06_final"}},
			GenQuick: famState(3), GenThorough: famState(5), SampleQuick: 150,
			Sim: with(famState(12), func(m *SeqModel) { m.MaxTasks = 3; m.Extras = append(m.Extras, "modes") }), SimNumQuick: 80, SimNumThorough: 1200}
	}
	registry["C07"] = func() Check {
		return &SeqCheck{Prop: "C07",
			Ideal: famGraph(3, 2, 5), IdealDeep: famGraph(3, 2, 7), IdealProps: []string{"P_C07"},
			Proc:     &ProcCheck{Prop: "C07", Scenarios: "SeqScenarios", IdealInvs: []string{"Serializable"}, Only: []string{"C07_final"}},
			GenQuick: famGraph(3, 1, 4), GenThorough: famGraph(3, 2, 6), SampleQuick: 300, Probes: append(append([]emitted{}, probeEdges...), probeLongChains...),
			// chains (sequence A B C, also with repeated ids) over tasks and over childless epics
			GenMore: []SeqModel{
				with(famGraph(3, 0, 5), func(m *SeqModel) {
					m.Name = "chains-tasks"
					m.Extras = []string{"chains"}
					m.StateArgs = nil
					m.CmdNames = []string{"new_task", "sequence", "sequence_rm"}
				}),
				with(famGraph(0, 3, 5), func(m *SeqModel) {
					m.Name = "chains-epics"
					m.Extras = []string{"chains"}
					m.StateArgs = nil
					m.CmdNames = []string{"new_epic", "sequence", "sequence_rm"}
				}),
			},
			CraftQuick: famCraft(600, "prune", "compact"), CraftThorough: famCraft(4000, "prune", "compact"),
			Sim: with(famGraph(4, 2, 14), func(m *SeqModel) { m.Extras = append(m.Extras, "chains", "badid") }), SimNumQuick: 60, SimNumThorough: 1200}
	}
	registry["C08"] = func() Check {
		return &SeqCheck{Prop: "C08",
			Ideal: famReady(3, 2, 5), IdealDeep: famReady(3, 2, 6), IdealProps: []string{"P_C08"}, IdealInvs: []string{"CodeReadyIsSpecReady"}, Probes: append(append([]emitted{}, probeClaimOrder...), probeManyChildren...),
			Proc:     &ProcCheck{Prop: "C08", Scenarios: "ClaimScenarios", IdealInvs: []string{"Serializable"}, Only: []string{"C08_serial"}, MaxRunsQuick: 500},
			GenQuick: famReady(2, 2, 4), GenThorough: famReady(3, 2, 6), SampleQuick: 120,
			CraftQuick: famCraft(700, "claim", "list_ready"), CraftThorough: famCraft(4000, "claim", "list_ready"),
			Sim: famReady(4, 2, 14), SimNumQuick: 60, SimNumThorough: 1200}
	}
	registry["C09"] = func() Check {
		return &SeqCheck{Prop: "C09",
			Ideal: famIds(2, 1, 5), IdealDeep: famIds(3, 1, 6), IdealProps: []string{"P_C09"}, IdealInvs: []string{"CodePruneIsSpecPrune"}, Probes: append(append([]emitted{}, probeReissue...), probeAfterPrune...),
			Proc:     &ProcCheck{Prop: "C09", Scenarios: "PruneScenarios", IdealInvs: []string{"Serializable"}, Only: []string{"C09_serial"}},
			GenQuick: famIds(2, 1, 4), GenThorough: famIds(2, 1, 6), SampleQuick: 100,
			CraftQuick: famCraft(600, "prune", "prune_dry"), CraftThorough: famCraft(4000, "prune", "prune_dry"),
			// hand-merged logs: a pruned item's create/update/link/tombstone events in every order
			Craft2Quick:    famMerged(80, "sequence", "compact", "reads"),
			Craft2Thorough: famMerged(2500, "sequence", "sequence_rm", "set", "compact", "reads", "claim"),
			Sim:            famIds(3, 2, 12), SimNumQuick: 60, SimNumThorough: 1200}
	}
	registry["C10"] = func() Check {
		return &SeqCheck{Prop: "C10",
			Ideal: famFull(3), IdealDeep: famFull(4), IdealProps: []string{"P_C10"}, Extra: textRejects, Probes: append(append(append([]emitted{}, probeHalf...), probeD10...), probeTorn...),
			Proc:     &ProcCheck{Prop: "C10", Scenarios: "FailScenarios", IdealInvs: []string{"Serializable"}, Only: []string{"C10_serial"}},
			GenQuick: famFull(2), GenThorough: famFullModes(3), SampleQuick: 60,
			Sim: with(famFullModes(10), func(m *SeqModel) { m.MaxTasks = 3 }), SimNumQuick: 100, SimNumThorough: 1000}
	}
	registry["C11"] = func() Check {
		return &SeqCheck{Prop: "C11",
			Ideal:     with(famPlan(3), func(m *SeqModel) { m.Extras = append(m.Extras, "trailing") }),
			IdealDeep: famPlan(4), IdealProps: []string{"P_C11"}, Probes: probePlanIDs,
			GenQuick:    with(famPlan(2), func(m *SeqModel) { m.Extras = append(m.Extras, "trailing") }),
			GenThorough: with(famPlan(4), func(m *SeqModel) { m.Extras = append(m.Extras, "trailing") }), SampleQuick: 100,
			Sim: famPlan(8), SimNumQuick: 60, SimNumThorough: 1000}
	}
	registry["C14"] = func() Check {
		return &SeqCheck{Prop: "C14",
			Ideal: famIds(2, 2, 4), IdealDeep: famIds(3, 2, 6), IdealProps: []string{"P_C14"}, Probes: append(append([]emitted{}, probeEpicRef...), probeIDOrder...),
			Proc:     &ProcCheck{Prop: "C14", Scenarios: "PruneScenarios", IdealInvs: []string{"Serializable"}, Only: []string{"C14_final"}},
			GenQuick: famIds(2, 1, 4), GenThorough: famIds(2, 2, 6), SampleQuick: 100,
			CraftQuick: famCraft(800, "prune", "compact"), CraftThorough: famCraft(4000, "prune", "compact"),
			Sim: famIds(3, 2, 12), SimNumQuick: 60, SimNumThorough: 1200}
	}
	registry["C15"] = func() Check {
		return &SeqCheck{Prop: "C15",
			Ideal: famGraph(3, 2, 5), IdealDeep: famGraph(3, 2, 7), IdealProps: []string{"P_C15"}, IdealInvs: []string{"CodeWaitsIsSpecWaits"}, Probes: append(append(append([]emitted{}, probeD10...), probeWaits...), probeLongChains...),
			Proc:     &ProcCheck{Prop: "C15", Scenarios: "SeqScenarios", IdealInvs: []string{"Serializable"}, Only: []string{"C15_final"}},
			GenQuick: famGraph(2, 2, 6), GenThorough: famGraph(3, 2, 7), SampleQuick: 200,
			// chains given in ONE command (sequence A B C, also with a repeated id)
			GenMore: []SeqModel{
				with(famGraph(3, 0, 4), func(m *SeqModel) {
					m.Name = "chains-tasks"
					m.Extras = []string{"chains"}
					m.StateArgs = nil
					m.CmdNames = []string{"new_task", "sequence", "claim"}
				}),
			},
			Sim: with(famGraph(4, 2, 14), func(m *SeqModel) { m.CmdNames = append(m.CmdNames, "claim"); m.Extras = append(m.Extras, "chains") }), SimNumQuick: 60, SimNumThorough: 1200}
	}
	registry["C16"] = func() Check {
		return &SeqCheck{Prop: "C16",
			Ideal: famFull(3), IdealDeep: famFull(4), IdealProps: []string{"P_C16"}, Probes: append(append(append([]emitted{}, probeHalf...), probePlanIDs...), probeLongHistory...),
			Proc:     &ProcCheck{Prop: "C16", Scenarios: "PruneScenarios", IdealInvs: []string{"Serializable"}, Only: []string{"C16_prune_truth"}},
			GenQuick: famFull(2), GenThorough: famFullModes(3), SampleQuick: 60,
			Sim: with(famFullModes(10), func(m *SeqModel) { m.MaxTasks = 3 }), SimNumQuick: 100, SimNumThorough: 1000}
	}
	registry["C20"] = func() Check {
		return &SeqCheck{Prop: "C20",
			Ideal: famResults(4), IdealDeep: famResults(5), IdealProps: []string{"P_C20"}, Probes: append(append(append([]emitted{}, probeCompact...), probeEvidence...), probeManyResults...),
			GenQuick: famResults(3), GenThorough: famResults(5), SampleQuick: 100,
			Sim: famResults(10), SimNumQuick: 60, SimNumThorough: 1000}
	}
	registry["C05"] = func() Check {
		return &SeqCheck{Prop: "C05",
			Ideal: famCompact(4), IdealDeep: famCompact(6), IdealProps: []string{"P_C05"}, Probes: append(append(append(append([]emitted{}, probeCompact...), probeClaimOrder...), probeClockBack...), probeManyResults...),
			GenQuick: famCompact(4), GenThorough: famCompact(6), SampleQuick: 150,
			// dependency edges (task and epic) across compactions
			GenMore: []SeqModel{
				with(famGraph(2, 2, 5), func(m *SeqModel) {
					m.Name = "compact-graph"
					m.CmdNames = []string{"new_task", "new_epic", "sequence", "sequence_rm", "set", "compact"}
					m.StateArgs = []string{"done"}
					m.ViewMode = "timed"
					m.AlphaOnly = []string{"compact"}
				}),
			},
			// (random crafted stores are NOT used here: C05 quantifies over histories ergo can
			// produce plus legacy logs; a hand-made "canceled but claimed" item does lose its
			// claim in compaction, which is outside the property)
			Craft2Quick: famLegacy(300, "compact"), Craft2Thorough: famLegacy(3000, "compact"),
			// (crafted stores whose state/claimant pairs are all legal ARE within the property)
			CraftQuick:    with(famCraft(400, "compact"), func(m *SeqModel) { m.Name, m.CraftLegal, m.ViewMode = "crafted-legal", true, "timed" }),
			CraftThorough: with(famCraft(3000, "compact"), func(m *SeqModel) { m.Name, m.CraftLegal, m.ViewMode = "crafted-legal", true, "timed" }),
			Sim:           with(famFull(12), func(m *SeqModel) { m.MaxTasks = 3; m.ViewMode = "timed" }), SimNumQuick: 60, SimNumThorough: 1200}
	}
	registry["C12"] = func() Check {
		return &SeqCheck{Prop: "C12",
			Ideal: famFull(3), IdealDeep: famFull(4), IdealProps: []string{"P_C12"}, Extra: fileCases, Probes: append(append(append([]emitted{}, probeTorn...), probeAfterPrune...), probeLongHistory...),
			GenQuick: famFull(2), GenThorough: famFullModes(3), SampleQuick: 60,
			Sim: with(famFullModes(10), func(m *SeqModel) { m.MaxTasks = 3 }), SimNumQuick: 100, SimNumThorough: 1000}
	}
}
