package main

// Registry: which model family, bounds and engines decide which property.

var allStates = []string{"todo", "doing", "done", "blocked", "canceled", "error"}

func famState(depth int) SeqModel {
	return SeqModel{Name: "state", MaxTasks: 2, MaxEpics: 1, Depth: depth,
		Agents: []string{"a1", "a2"}, CmdNames: []string{"new_task", "new_epic", "set", "claim_id", "claim"},
		StateArgs: append(append([]string{}, allStates...), "bogus"), ClaimArgs: []string{"", "a1"},
		Extras: []string{}, ViewMode: "graph"}
}

func init() {
	registry["C06"] = func() Check {
		sim := famState(12)
		sim.MaxTasks = 3
		return &SeqCheck{Prop: "C06",
			Ideal: famState(5), IdealProps: []string{"P_C06", "P_C10"}, IdealInvs: []string{"CodeReadyIsSpecReady"},
			GenQuick: famState(3), GenThorough: famState(5), SampleQuick: 40,
			Sim: sim, SimNumQuick: 60, SimNumThorough: 2000}
	}
}
