package main

// The controller: starts real ergo processes whose sync-point hooks (build tag
// verif) block on a Unix socket, and releases them one gate at a time.  Every
// ordering decision is a gate release; there are no sleeps.  A process can be
// SIGKILLed while parked, and a torn write can be left behind by the controller
// itself (kill at append.before, then write the first k bytes of the line).

import (
	"bufio"
	"bytes"
	"encoding/json"
	"fmt"
	"net"
	"os"
	"os/exec"
	"path/filepath"
	"sync"
	"syscall"
	"time"
)

type HookRec struct {
	Proc  string   `json:"proc"`
	Pid   int      `json:"pid"`
	Seq   int      `json:"seq"`
	Point string   `json:"point"`
	KV    []string `json:"kv"`
}

type Ctl struct {
	sock  string
	ln    net.Listener
	mu    sync.Mutex
	procs map[string]*Proc
	clock int // global event counter: orders invocations and responses
	wg    sync.WaitGroup
}

type Proc struct {
	Name   string
	ctl    *Ctl
	cmd    *exec.Cmd
	stdout bytes.Buffer
	stderr bytes.Buffer
	recs   chan HookRec // hook records as they arrive
	conn   net.Conn
	parked *HookRec // the record the process is currently blocked on
	exited chan struct{}
	exit   int
	Killed bool
	Inv    int // clock value when the process was first allowed to run
	Res    int // clock value when its exit was observed (0 = still running)
	Trail  []string
	connMu sync.Mutex
}

func newCtl(dir string) (*Ctl, error) {
	sock := filepath.Join(dir, fmt.Sprintf("c%d.sock", time.Now().UnixNano()%1000000))
	ln, err := net.Listen("unix", sock)
	if err != nil {
		return nil, err
	}
	c := &Ctl{sock: sock, ln: ln, procs: map[string]*Proc{}}
	go c.accept()
	return c, nil
}

func (c *Ctl) Close() {
	c.ln.Close()
	c.mu.Lock()
	for _, p := range c.procs {
		if p.cmd.Process != nil {
			_ = p.cmd.Process.Kill()
		}
	}
	c.mu.Unlock()
	_ = os.Remove(c.sock)
}

func (c *Ctl) tick() int {
	c.mu.Lock()
	defer c.mu.Unlock()
	c.clock++
	return c.clock
}

func (c *Ctl) accept() {
	for {
		conn, err := c.ln.Accept()
		if err != nil {
			return
		}
		go func(conn net.Conn) {
			rd := bufio.NewReaderSize(conn, 1<<20)
			var p *Proc
			for {
				line, err := rd.ReadBytes('\n')
				if err != nil {
					return
				}
				var r HookRec
				if json.Unmarshal(line, &r) != nil {
					continue
				}
				if p == nil {
					c.mu.Lock()
					p = c.procs[r.Proc]
					c.mu.Unlock()
					if p == nil {
						// unknown process: never block it
						_, _ = conn.Write([]byte("go\n"))
						continue
					}
					p.connMu.Lock()
					p.conn = conn
					p.connMu.Unlock()
				}
				p.recs <- r
			}
		}(conn)
	}
}

// Start launches ergo; the process blocks at its first sync point.
func (c *Ctl) Start(name string, st *Store, stdin []byte, extraEnv []string, args ...string) *Proc {
	p := &Proc{Name: name, ctl: c, recs: make(chan HookRec, 64), exited: make(chan struct{})}
	cmd := exec.Command(st.Bin, args...)
	cmd.Dir = st.Root
	cmd.Env = append([]string{"HOME=" + st.Root, "PATH=/usr/bin:/bin", "NO_COLOR=1",
		"ERGO_VERIF_SOCK=" + c.sock, "ERGO_VERIF_PROC=" + name}, extraEnv...)
	if stdin != nil {
		cmd.Stdin = bytes.NewReader(stdin)
	} else {
		f, _ := os.Open(os.DevNull)
		cmd.Stdin = f
		defer f.Close()
	}
	cmd.Stdout, cmd.Stderr = &p.stdout, &p.stderr
	p.cmd = cmd
	c.mu.Lock()
	c.procs[name] = p
	c.mu.Unlock()
	p.Inv = c.tick()
	if err := cmd.Start(); err != nil {
		p.exit = -2
		close(p.exited)
		return p
	}
	go func() {
		err := cmd.Wait()
		if err != nil {
			if ee, ok := err.(*exec.ExitError); ok {
				p.exit = ee.ExitCode()
			} else {
				p.exit = -2
			}
		}
		p.Res = c.tick()
		close(p.exited)
	}()
	return p
}

func (p *Proc) Exited() bool {
	select {
	case <-p.exited:
		return true
	default:
		return false
	}
}

func (p *Proc) release() {
	if p.parked == nil {
		return
	}
	p.parked = nil
	p.connMu.Lock()
	conn := p.conn
	p.connMu.Unlock()
	if conn != nil {
		_, _ = conn.Write([]byte("go\n"))
	}
}

// next waits for the next hook record or the exit of the process.
func (p *Proc) next(timeout time.Duration) (*HookRec, bool) {
	select {
	case r := <-p.recs:
		p.parked = &r
		p.Trail = append(p.Trail, r.Point)
		return &r, true
	case <-p.exited:
		// drain a record that raced with the exit
		select {
		case r := <-p.recs:
			p.parked = &r
			return &r, true
		default:
		}
		return nil, false
	case <-time.After(timeout):
		return nil, false
	}
}

const gateTimeout = 10 * time.Second

// RunTo releases the process until it parks at a point accepted by want (which
// is not released), or exits.  It returns the record it is parked on, or nil.
func (p *Proc) RunTo(want func(HookRec) bool) *HookRec {
	for {
		p.release()
		r, ok := p.next(gateTimeout)
		if !ok {
			return nil
		}
		if want(*r) {
			return r
		}
	}
}

// Step advances to the next point of `set`.
func (p *Proc) Step(set map[string]bool) *HookRec {
	return p.RunTo(func(r HookRec) bool { return set[r.Point] })
}

// Finish releases every gate until the process exits.
func (p *Proc) Finish() RunResult {
	deadline := time.After(15 * time.Second)
	for {
		p.release()
		select {
		case r := <-p.recs:
			p.parked = &r
			p.Trail = append(p.Trail, r.Point)
		case <-p.exited:
			return RunResult{Exit: p.exit, Stdout: p.stdout.Bytes(), Stderr: p.stderr.Bytes()}
		case <-deadline:
			_ = p.cmd.Process.Kill()
			<-p.exited
			return RunResult{Exit: 124, TimedOut: true, Stdout: p.stdout.Bytes(), Stderr: p.stderr.Bytes()}
		}
	}
}

// Kill sends SIGKILL (the process is parked, so it dies at this point) and
// waits for it.
func (p *Proc) Kill() {
	p.Killed = true
	if p.cmd.Process != nil {
		_ = p.cmd.Process.Signal(syscall.SIGKILL)
	}
	<-p.exited
	p.parked = nil
}

func (p *Proc) Result() RunResult {
	return RunResult{Exit: p.exit, Stdout: p.stdout.Bytes(), Stderr: p.stderr.Bytes()}
}

// the sync points at which the process layer of the specification takes a step
var relevantPoints = map[string]bool{
	"lock.flock": true, "lock.acquired": true, "read.open": true, "read.probed": true, "read.scanned": true,
	"append.before": true, "tmp.before": true, "rename.before": true, "rename.after": true,
	"lock.releasing": true, "lock.released": true, "ensure.create": true,
}
