package main

// A minimal pseudo-terminal (standard library only): ergo chooses the width of
// its human output from the terminal size of stdout, so the harness gives it a
// terminal whose size it sets.

import (
	"bytes"
	"context"
	"fmt"
	"io"
	"os"
	"os/exec"
	"syscall"
	"time"
	"unsafe"
)

type winsize struct{ Row, Col, X, Y uint16 }

func openPty(cols int) (master, slave *os.File, err error) {
	master, err = os.OpenFile("/dev/ptmx", os.O_RDWR|syscall.O_NOCTTY, 0)
	if err != nil {
		return nil, nil, err
	}
	var unlock int32
	if _, _, e := syscall.Syscall(syscall.SYS_IOCTL, master.Fd(), syscall.TIOCSPTLCK, uintptr(unsafe.Pointer(&unlock))); e != 0 {
		master.Close()
		return nil, nil, e
	}
	var n uint32
	if _, _, e := syscall.Syscall(syscall.SYS_IOCTL, master.Fd(), syscall.TIOCGPTN, uintptr(unsafe.Pointer(&n))); e != 0 {
		master.Close()
		return nil, nil, e
	}
	slave, err = os.OpenFile(fmt.Sprintf("/dev/pts/%d", n), os.O_RDWR|syscall.O_NOCTTY, 0)
	if err != nil {
		master.Close()
		return nil, nil, err
	}
	ws := winsize{Row: 50, Col: uint16(cols)}
	if _, _, e := syscall.Syscall(syscall.SYS_IOCTL, master.Fd(), syscall.TIOCSWINSZ, uintptr(unsafe.Pointer(&ws))); e != 0 {
		master.Close()
		slave.Close()
		return nil, nil, e
	}
	return master, slave, nil
}

// runOnPty runs ergo with stdout on a terminal of the given width.
func (s *Store) runOnPty(cols int, args ...string) (RunResult, error) {
	master, slave, err := openPty(cols)
	if err != nil {
		return RunResult{}, err
	}
	defer master.Close()
	ctx, cancel := context.WithTimeout(context.Background(), 15*time.Second)
	defer cancel()
	cmd := exec.CommandContext(ctx, s.Bin, args...)
	cmd.Dir = s.Root
	cmd.Env = []string{"HOME=" + s.Root, "PATH=/usr/bin:/bin", "TERM=xterm"}
	null, _ := os.Open(os.DevNull)
	defer null.Close()
	cmd.Stdin = null
	cmd.Stdout = slave
	var se bytes.Buffer
	cmd.Stderr = &se
	if err := cmd.Start(); err != nil {
		slave.Close()
		return RunResult{}, err
	}
	slave.Close()
	var out bytes.Buffer
	done := make(chan struct{})
	go func() {
		_, _ = io.Copy(&out, master) // ends with EIO when the slave side is closed
		close(done)
	}()
	werr := cmd.Wait()
	select {
	case <-done:
	case <-time.After(2 * time.Second):
	}
	r := RunResult{Stdout: out.Bytes(), Stderr: se.Bytes()}
	if ctx.Err() != nil {
		r.TimedOut, r.Exit = true, 124
	} else if werr != nil {
		if ee, ok := werr.(*exec.ExitError); ok {
			r.Exit = ee.ExitCode()
		} else {
			r.Exit = -2
		}
	}
	// the terminal turns \n into \r\n
	r.Stdout = bytes.ReplaceAll(r.Stdout, []byte("\r\n"), []byte("\n"))
	return r, nil
}
