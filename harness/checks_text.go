package main

// C17: text round trips.  TLC prints the case matrix (input path x command x
// field x text class x follow-up, spec/ErgoText.tla); each case is concretised
// into seeded strings, pushed through the real binary along that path and read
// back with `show --json`.  The harness reports only how what came back
// relates to what went in (equal / trimmed / different / rejected); which
// relation is acceptable on which path is decided by TLC (C17_* clauses).

import (
	"encoding/json"
	"fmt"
	"math/rand"
	"os"
	"path/filepath"
	"strings"
	"sync"
	"time"
)

type textCase struct {
	Mode   string `json:"mode"`
	Cmd    string `json:"cmd"`
	Field  string `json:"field"`
	Class  string `json:"class"`
	Follow string `json:"follow"`
	Pieces bool   `json:"pieces"`
}

func words(rng *rand.Rand, n int) string {
	dict := []string{"fix", "the", "parser", "for", "unicode", "input", "Refactor", "cache", "layer", "v2", "TODO:", "edge-case", "(draft)", "100%"}
	var b []string
	for i := 0; i < n; i++ {
		b = append(b, dict[rng.Intn(len(dict))])
	}
	return strings.Join(b, " ")
}

func concretise(class string, rng *rand.Rand, allowNUL bool) string {
	core := words(rng, 2+rng.Intn(4))
	switch class {
	case "ascii":
		return core
	case "pad_space":
		return strings.Repeat(" ", 1+rng.Intn(3)) + core + strings.Repeat(" ", 1+rng.Intn(3))
	case "pad_tab_nl":
		return "\t\n" + core + " \n\t"
	case "newlines":
		return core + "\n\n" + words(rng, 3) + "\n- item one\n- item two"
	case "crlf":
		return core + "\r\nsecond line\r\nthird"
	case "quotes":
		return `"` + core + `" 'single' back\slash \\ \" \n-literal A ` + "`tick`"
	case "control":
		s := core + "\x01\x02\x07\x08\x1b[31mred\x1b[0m\x1f" + "end"
		if allowNUL {
			s = "a\x00b" + s
		}
		return s
	case "html":
		return `<b>` + core + `</b> &amp; <script>alert(1)</script> a < b > c & d`
	case "linesep":
		return core + " line sep para sep\u0085nel" + "x"
	case "astral":
		return core + " 𝒜𝓑𝒞 😀 🏳️‍🌈 𐍈 \U0010FFFD"
	case "combining":
		return "é ạ̈ ñ " + core + " क्ष"
	case "nbsp_pad":
		return " " + core + " "
	case "long64k":
		return strings.Repeat(core+" ", 64*1024/(len(core)+1))
	case "unicode_blank":
		return []string{"\u3000\u00a0\u2003", "\u00a0", "\u2028\u3000", "\u3000 \t"}[rng.Intn(4)]
	case "long_multibyte":
		// > 64 KiB of 3-byte characters behind a 1-byte prefix: read boundaries fall inside characters
		return "x" + strings.Repeat("漢字かな交じり文", 150*1024/24) + "é"
	case "over_limit":
		return "x" + strings.Repeat(core+" ", 11*1024*1024/(len(core)+1)) + "y"
	case "html200k":
		return "x" + strings.Repeat("<&>", 200*1024/3) + "y"
	case "mentions_id":
		// the ids of a pruned item and of a live one are substituted once the store exists
		return core + " (see @PRUNED@, blocked by @LIVE@) " + words(rng, 2)
	case "json_like":
		return []string{`{"title":"x","state":"done"}`, `--json`, `null`, `["a"]`, `-q`}[rng.Intn(5)] + " " + core
	}
	return core
}

type textRunner struct {
	e *Env
}

func (t *textRunner) runCase(c textCase, idx int, seed int64) ([]*Obs, error) {
	rng := rand.New(rand.NewSource(seed*1000003 + int64(idx)))
	argvPath := c.Mode == "flags" || (c.Mode == "bodystdin" && c.Field == "title")
	if c.Class == "near_limit" {
		if argvPath {
			return nil, nil
		}
		return t.runLimit(c, idx, rng)
	}
	s := concretise(c.Class, rng, !argvPath)
	if argvPath && len(s) > 100*1024 {
		return nil, nil // argv cannot carry it: case does not exist
	}
	o, err := t.attempt(c, s, fmt.Sprintf("text-%d", idx), rng)
	if o == nil || err != nil {
		return nil, err
	}
	return []*Obs{o}, nil
}

// runLimit: class near_limit.  The largest text a store takes is found by
// bisection (every attempt in a fresh store, every attempt an observation);
// the sizes right at the boundary are then tried once more.  Whatever the
// limit is, each attempt must either round-trip or be refused without a trace.
func (t *textRunner) runLimit(c textCase, idx int, rng *rand.Rand) ([]*Obs, error) {
	var out []*Obs
	n := 0
	try := func(size int) (bool, error) {
		n++
		o, err := t.attempt(c, strings.Repeat("x", size), fmt.Sprintf("text-%d-%d", idx, n), rng)
		if err != nil {
			return false, err
		}
		if o == nil {
			return false, fatalf("near_limit: scaffolding failed")
		}
		o.Cmd["attempt"] = n
		out = append(out, o)
		return o.Facts["rel"] != "rejected", nil
	}
	lo, hi := 1024, 24*1024*1024
	okLo, err := try(lo)
	if err != nil {
		return nil, err
	}
	okHi, err := try(hi)
	if err != nil {
		return nil, err
	}
	if okLo && !okHi {
		for hi-lo > 1 {
			mid := lo + (hi-lo)/2
			ok, err := try(mid)
			if err != nil {
				return nil, err
			}
			if ok {
				lo = mid
			} else {
				hi = mid
			}
		}
		// once more around the boundary (timestamps vary in length by a few bytes)
		for d := -2; d <= 3; d++ {
			if _, err := try(lo + d); err != nil {
				return nil, err
			}
		}
	}
	return out, nil
}

func (t *textRunner) attempt(c textCase, s string, dir string, rng *rand.Rand) (*Obs, error) {
	root := filepath.Join(t.e.Scratch, dir)
	st, err := newStore(t.e.Ergo, root)
	if err != nil {
		return nil, err
	}
	defer removeAll(root)
	if strings.Contains(s, "@PRUNED@") {
		mk := func(state string) string {
			b, _ := json.Marshal(map[string]any{"title": "referenced", "state": state})
			var m map[string]any
			_ = json.Unmarshal(st.run(b, nil, "--json", "new", "task").Stdout, &m)
			x, _ := m["id"].(string)
			return x
		}
		pruned, live := mk("done"), mk("todo")
		if r := st.run(nil, nil, "--json", "prune", "--yes"); r.Exit != 0 || pruned == "" || live == "" {
			return nil, nil // scaffolding failed: nothing to round-trip
		}
		s = strings.ReplaceAll(strings.ReplaceAll(s, "@PRUNED@", pruned), "@LIVE@", live)
	}
	if c.Pieces {
		st = &Store{Root: st.Root, Bin: st.Bin, StdinPieces: 3}
	}
	logStart, _ := os.ReadFile(st.LogPath())
	other := "plain " + words(rng, 2)
	title, body := other, other
	if c.Field == "title" {
		title = s
	} else {
		body = s
	}
	var id string
	var logBefore []byte
	rejected := false
	bystander := true // text of the other items written by the same command came back as given
	jsonIn := func(m map[string]any) []byte { b, _ := json.Marshal(m); return b }
	create := func(kind string, title, body string, mode string) (string, bool) {
		var r RunResult
		switch mode {
		case "flags":
			r = st.run(nil, nil, "--json", "new", kind, "--title="+title, "--body="+body)
		case "bodystdin":
			r = st.run([]byte(body), nil, "--json", "new", kind, "--body-stdin", "--title="+title)
		default:
			r = st.run(jsonIn(map[string]any{"title": title, "body": body}), nil, "--json", "new", kind)
		}
		if r.Exit != 0 {
			return "", false
		}
		var m map[string]any
		_ = json.Unmarshal(r.Stdout, &m)
		x, _ := m["id"].(string)
		return x, x != ""
	}
	switch c.Cmd {
	case "new_task", "new_epic":
		kind := strings.TrimPrefix(c.Cmd, "new_")
		var ok bool
		id, ok = create(kind, title, body, c.Mode)
		rejected = !ok
	case "set":
		kind := []string{"task", "epic"}[rng.Intn(2)]
		var ok bool
		id, ok = create(kind, "before "+other, "before body", "json")
		if !ok {
			// creating a plain item failed: nothing to round-trip in this case
			return nil, nil
		}
		logBefore, _ = os.ReadFile(st.LogPath())
		var r RunResult
		switch c.Mode {
		case "flags":
			if c.Field == "title" {
				r = st.run(nil, nil, "--json", "set", id, "--title="+s)
			} else {
				r = st.run(nil, nil, "--json", "set", id, "--body="+s)
			}
		case "bodystdin":
			if c.Field == "title" {
				r = st.run([]byte("body via stdin"), nil, "--json", "set", id, "--body-stdin", "--title="+s)
			} else {
				r = st.run([]byte(s), nil, "--json", "set", id, "--body-stdin")
			}
		default:
			r = st.run(jsonIn(map[string]any{c.Field: s}), nil, "--json", "set", id)
		}
		rejected = r.Exit != 0
	case "plan":
		epicLevel := rng.Intn(2) == 0
		doc := map[string]any{"title": "Plan " + other, "body": "plan body", "tasks": []any{
			map[string]any{"title": "first " + other, "body": "b1"},
			map[string]any{"title": "second " + other, "body": "b2", "after": []string{"first " + other}},
			map[string]any{"title": "third " + other}}} // no body: must come back empty
		if epicLevel {
			doc[c.Field] = s
		} else {
			doc["tasks"].([]any)[0].(map[string]any)[c.Field] = s
			if c.Field == "title" {
				doc["tasks"].([]any)[1].(map[string]any)["after"] = []string{s}
			}
		}
		r := st.run(jsonIn(doc), nil, "--json", "plan")
		rejected = r.Exit != 0
		if !rejected {
			var m struct {
				Epic  struct{ ID string }   `json:"epic"`
				Tasks []struct{ ID string } `json:"tasks"`
			}
			_ = json.Unmarshal(r.Stdout, &m)
			if epicLevel {
				id = m.Epic.ID
			} else if len(m.Tasks) > 0 {
				id = m.Tasks[0].ID
			}
			// the other entries of the same document come back as given, too
			want := doc["tasks"].([]any)
			for k := 1; k < len(m.Tasks) && k < len(want); k++ {
				w := want[k].(map[string]any)
				wb, _ := w["body"].(string)
				var sh showOut
				r := st.run(nil, nil, "--json", "show", m.Tasks[k].ID)
				if r.Exit != 0 || json.Unmarshal(r.Stdout, &sh) != nil || sh.Title != w["title"].(string) || sh.Body != wb {
					bystander = false
				}
			}
		}
	}
	read := func() string {
		if id == "" {
			return "rejected"
		}
		r := st.run(nil, nil, "--json", "show", id)
		if r.Exit != 0 {
			return "unreadable"
		}
		var sh showOut
		var wrap struct {
			Epic *showOut `json:"epic"`
		}
		if json.Unmarshal(r.Stdout, &wrap) == nil && wrap.Epic != nil {
			sh = *wrap.Epic
		} else if json.Unmarshal(r.Stdout, &sh) != nil {
			return "unreadable"
		}
		got := sh.Title
		if c.Field == "body" {
			got = sh.Body
		}
		switch {
		case !bystander:
			return "different"
		case got == s:
			return "equal"
		case c.Cmd == "set" && ((c.Field == "title" && got == "before "+other) || (c.Field == "body" && got == "before body")):
			return "ignored" // the item still shows what it had before the request
		case got == strings.TrimSpace(s):
			return "trimmed"
		default:
			return "different"
		}
	}
	rel := "rejected"
	relAfter := "rejected"
	logNow, _ := os.ReadFile(st.LogPath())
	if rejected && c.Cmd != "set" {
		// nothing may have been created
		logBefore = logStart
	}
	if !rejected {
		rel = read()
		switch c.Follow {
		case "set_other":
			f := "body"
			if c.Field == "body" {
				f = "title"
			}
			st.run(jsonIn(map[string]any{f: "changed " + other}), nil, "--json", "set", id)
		case "compact":
			st.run(nil, nil, "--json", "compact")
		case "compact2":
			st.run(nil, nil, "--json", "compact")
			st.run(nil, nil, "--json", "compact")
		case "plan_after":
			st.run(jsonIn(map[string]any{"title": "Later", "tasks": []any{map[string]any{"title": "t"}}}), nil, "--json", "plan")
		case "set_back":
			st.run(jsonIn(map[string]any{"state": "done"}), nil, "--json", "set", id)
			st.run(nil, nil, "--json", "compact")
			st.run(jsonIn(map[string]any{"state": "todo"}), nil, "--json", "set", id)
		}
		relAfter = read()
	}
	readable := st.run(nil, nil, "--json", "list", "--all").Exit == 0
	unchanged := string(logBefore) == string(logNow)
	sample := s
	if len(sample) > 60 {
		sample = sample[:60] + "…"
	}
	o := &Obs{Tag: "e8", Cmd: Cmd{"name": "text", "mode": "json", "case": c, "sample": sample, "len": len(s)},
		Reply: Reply{IDs: []string{}, Edges: [][2]string{}, Pruned: []string{}}, Out: outFacts{JSON: true, Values: 1},
		Pre: map[string]any{}, Post: map[string]any{}, LogPre: []map[string]any{}, LogPost: []map[string]any{}, Gone: []string{},
		Readable: true, ListShow: true, Facts: map[string]any{"rel": rel, "rel_after": relAfter}, Only: []string{"C17_roundtrip", "C17_stays", "C17_accepted", "C17_overlimit", "C17_blank", "C10_text_reject"},
		Procs: []procRec{}, Readers: []readerRec{}, After: []afterRec{},
		Text: map[string]any{"case": c, "rel": rel, "rel_after": relAfter, "store_readable": readable, "store_unchanged": unchanged}}
	return o, nil
}

type TextCheck struct{}

func (TextCheck) Run(e *Env) (*Outcome, *Evidence, error) {
	thorough := e.Tier == "thorough"
	cfg := "INIT Init\nNEXT Next\nINVARIANTS TrimOnlyTitles JsonCreateVerbatim\n"
	res, err := e.runTLC("text", "MC_Text", cfg, 1, 5*time.Minute)
	if err != nil {
		return nil, nil, err
	}
	if !res.NoError || len(res.Lines) == 0 {
		return nil, nil, fatalf("TLC rejects the text model or printed no cases:\n%s", tail(res.Out, 30))
	}
	var cases []textCase
	if err := json.Unmarshal([]byte(res.Lines[0]), &cases); err != nil {
		return nil, nil, fatalf("case matrix: %v", err)
	}
	total := len(cases)
	rng := rand.New(rand.NewSource(e.Seed))
	rounds := 1
	if thorough {
		rounds = 3
	} else {
		// the boundary cases always run; the rest is sampled
		var lim, rest []textCase
		for _, c := range cases {
			if c.Class == "near_limit" {
				if c.Follow == "none" {
					lim = append(lim, c)
				}
			} else {
				rest = append(rest, c)
			}
		}
		cases = append(lim, sample(rest, 600, rng)...)
	}
	tr := &textRunner{e: e}
	var mu sync.Mutex
	var obs []*Obs
	var firstErr error
	type job struct {
		c   textCase
		idx int
	}
	ch := make(chan job)
	var wg sync.WaitGroup
	for w := 0; w < 16; w++ {
		wg.Add(1)
		go func() {
			defer wg.Done()
			for j := range ch {
				os_, err := tr.runCase(j.c, j.idx, e.Seed)
				mu.Lock()
				if err != nil && firstErr == nil {
					firstErr = err
				}
				obs = append(obs, os_...)
				mu.Unlock()
			}
		}()
	}
	n := 0
	for r := 0; r < rounds; r++ {
		for _, c := range cases {
			ch <- job{c, n}
			n++
		}
	}
	close(ch)
	wg.Wait()
	if firstErr != nil {
		return nil, nil, firstErr
	}
	fails, js, err := e.judge("C17", obs)
	if err != nil {
		return nil, nil, err
	}
	findings, err := loadFindings()
	if err != nil {
		return nil, nil, err
	}
	out := classify("C17", fails, findings)
	distinct := map[string]bool{}
	var samples []any
	for _, o := range obs {
		k := fmt.Sprint(o.Cmd["case"])
		if !distinct[k] && len(samples) < 4 {
			samples = append(samples, map[string]any{"case": o.Cmd["case"], "input_prefix": o.Cmd["sample"], "input_bytes": o.Cmd["len"], "relation": o.Facts["rel"], "after_followup": o.Facts["rel_after"]})
		}
		distinct[k] = true
	}
	cov := map[string]any{"evaluations": len(obs), "distinct_nontrivial": len(distinct),
		"rule":    "cases = input path x command x field x text class x follow-up enumerated by TLC (spec/ErgoText.tla RealCases); each concretised with seeded strings; distinct by case; every case is non-trivial (a mutation followed by a read)",
		"samples": samples, "case_matrix": total, "cases_run": len(cases) * rounds, "judged_records": js.Records,
		"explanation": "the quantifier over all Unicode strings is sampled by class; the path/trim rule is exhaustive"}
	ev := &Evidence{Level: "exploration", Coverage: cov, Assumptions: []string{
		"strings are sampled per class (ascii, padded, newlines, CRLF, quotes/backslashes, C0 controls incl. NUL on stdin paths, HTML-significant, U+2028/2029/0085, astral, combining, NBSP-padded, 64 KB, 200 KB of escapable characters)",
		"argv cannot carry NUL or arguments over 128 KB: those cases do not exist on flag paths"}}
	return out, ev, nil
}

func init() {
	registry["C17"] = func() Check { return TextCheck{} }
}

// textRejects is the Extra driver of the C10 check: refusals on the text paths
// (text at the size boundary of the log format, over it, Unicode blanks) must
// leave no trace.  Cases come from the same TLC-printed matrix as C17's.
func textRejects(e *Env, cov map[string]any) ([]*Obs, error) {
	res, err := e.runTLC("text10", "MC_Text", "INIT Init\nNEXT Next\n", 1, 5*time.Minute)
	if err != nil {
		return nil, err
	}
	if !res.NoError || len(res.Lines) == 0 {
		return nil, fatalf("TLC rejects the text model or printed no cases:\n%s", tail(res.Out, 30))
	}
	var cases, pick []textCase
	if err := json.Unmarshal([]byte(res.Lines[0]), &cases); err != nil {
		return nil, fatalf("case matrix: %v", err)
	}
	for _, c := range cases {
		if c.Follow != "none" {
			continue
		}
		switch c.Class {
		case "near_limit":
			if e.Tier == "thorough" || c.Cmd == "set" || c.Cmd == "plan" {
				pick = append(pick, c)
			}
		case "over_limit", "unicode_blank":
			if e.Tier == "thorough" || c.Mode == "json" {
				pick = append(pick, c)
			}
		}
	}
	tr := &textRunner{e: e}
	var mu sync.Mutex
	var obs []*Obs
	var firstErr error
	var wg sync.WaitGroup
	sem := make(chan struct{}, 12)
	for i, c := range pick {
		wg.Add(1)
		sem <- struct{}{}
		go func(i int, c textCase) {
			defer wg.Done()
			defer func() { <-sem }()
			os_, err := tr.runCase(c, 100000+i, e.Seed)
			mu.Lock()
			defer mu.Unlock()
			if err != nil && firstErr == nil {
				firstErr = err
			}
			for _, o := range os_ {
				o.Only = []string{"C10_text_reject"}
				obs = append(obs, o)
			}
		}(i, c)
	}
	wg.Wait()
	if firstErr != nil {
		return nil, firstErr
	}
	rej := 0
	for _, o := range obs {
		if o.Facts["rel"] == "rejected" {
			rej++
		}
	}
	cov["text_path_attempts"] = len(obs)
	cov["text_path_refusals"] = rej
	return obs, nil
}
