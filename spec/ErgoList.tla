------------------------------ MODULE ErgoList ------------------------------
(***************************************************************************)
(* The human `list` output as a projection of the same state (C19).        *)
(*                                                                         *)
(* The harness runs `ergo list [flag]` on a pseudo-terminal of a chosen    *)
(* width (or on a pipe), strips ANSI sequences and reports, per row:       *)
(*   id      the item id the row ends with                                 *)
(*   glyph   does the row start with a tree connector                      *)
(*   width   display width of the row,  idcol  column where the id starts  *)
(*   utf8    is the row valid UTF-8                                        *)
(* plus the summary counts it parsed, the sentence printed for an empty    *)
(* view, and the View (from --json) of the same store.  Row ORDER is not   *)
(* part of the property and is not judged.                                 *)
(***************************************************************************)
EXTENDS ErgoOps
LOCAL P == INSTANCE ErgoProps

RowIds(r) == [k \in 1..Len(r.rows) |-> r.rows[k].id]
CountOf(r, i) == Cardinality({k \in 1..Len(r.rows) : r.rows[k].id = i})
Active(v) == {t \in P!VTasks(v) : ~Closed(v[t].state)}
Ready(v) == {t \in P!VTasks(v) : P!SpecReady(v, t)}

\* the tasks a view is about
Scope(r) ==
  CASE r.flag = "all" -> P!VTasks(r.view)
    [] r.flag = "default" -> Active(r.view)
    [] r.flag = "ready" -> Ready(r.view)
    [] r.flag = "epic" -> P!VChildren(r.view, r.epic)
    [] r.flag = "epic_ready" -> P!VChildren(r.view, r.epic) \cap Ready(r.view)

C19_all_once(r) == r.flag = "all" => \A i \in DOMAIN r.view : CountOf(r, i) = 1
C19_active_once(r) == r.flag = "default" => \A t \in Active(r.view) : CountOf(r, t) = 1
C19_ready_exact(r) == r.flag = "ready" =>
                        \A t \in P!VTasks(r.view) : CountOf(r, t) = (IF t \in Ready(r.view) THEN 1 ELSE 0)
C19_known_rows(r) == \A k \in 1..Len(r.rows) : r.rows[k].id \in DOMAIN r.view /\ CountOf(r, r.rows[k].id) = 1

\* children sit under their own epic with a connector; root rows have none
Parent(r, k) == LET roots == {j \in 1..(k - 1) : ~r.rows[j].glyph}
                IN IF roots = {} THEN "" ELSE r.rows[CHOOSE m \in roots : \A j \in roots : j <= m].id
C19_tree(r) ==
  \A k \in 1..Len(r.rows) :
     LET i == r.rows[k].id IN
       i \in DOMAIN r.view =>
         IF r.view[i].kind = "task" /\ r.view[i].epic \in P!VEpics(r.view)
           THEN r.rows[k].glyph /\ Parent(r, k) = r.view[i].epic
           ELSE ~r.rows[k].glyph

\* the summary counts the tasks of the view's scope per bucket
Bucket(v, t) == CASE v[t].state = "done" -> "done" [] v[t].state = "canceled" -> "canceled"
                  [] v[t].state = "error" -> "error" [] v[t].state = "doing" -> "inprogress"
                  [] v[t].state = "todo" /\ P!SpecReady(v, t) -> "ready"
                  [] OTHER -> "blocked"
Shown(flag) == CASE flag = "default" -> {"ready", "inprogress", "blocked", "error"}
                 [] flag \in {"ready", "epic_ready"} -> {"ready"}
                 [] OTHER -> {"ready", "inprogress", "blocked", "error", "done", "canceled"}
C19_summary(r) ==
  (Len(r.rows) > 0 /\ ~r.quiet) =>
     \A b \in Shown(r.flag) : r.summary[b] = Cardinality({t \in Scope(r) : Bucket(r.view, t) = b})

\* a --ready view without ready tasks still summarises what is in ITS scope (the
\* store's active tasks, or the children of the epic given with --epic)
Base(r) == IF r.flag = "epic_ready" THEN P!VChildren(r.view, r.epic) ELSE Active(r.view)
C19_summary_noready(r) ==
  (r.flag \in {"ready", "epic_ready"} /\ r.sentence # "" /\ Scope(r) = {} /\ ~r.quiet /\ r.summary_printed) =>
     \A b \in {"inprogress", "blocked", "error"} :
        r.summary[b] = Cardinality({t \in Base(r) : Bucket(r.view, t) = b})
C19_ready_rows(r) == r.flag = "epic_ready" =>
                       \A t \in P!VTasks(r.view) :
                          CountOf(r, t) = (IF t \in Scope(r) THEN 1 ELSE 0)

\* an empty view says so
C19_empty(r) == Len(r.rows) = 0 => r.sentence # ""

\* layout
C19_fits(r) == \A k \in 1..Len(r.rows) : r.rows[k].width <= r.width
C19_idcol(r) == \A j, k \in 1..Len(r.rows) : r.rows[j].idcol = r.rows[k].idcol
C19_utf8(r) == r.utf8
=============================================================================
