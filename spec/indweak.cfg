CONSTANTS
  Tasks <- MCTasks
  AgentNames <- MCAgents
  Weak = TRUE
INIT Init
NEXT Next
INVARIANT IndInv
