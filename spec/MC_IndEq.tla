------------------------------ MODULE MC_IndEq ------------------------------
(* TLC: the typed decision of ErgoIndOps equals ErgoOps!DecideSet (ideal) on *)
(* every (current state, claimant, request) - so what Apalache proves is     *)
(* about the operator the rest of the specification uses.                    *)
EXTENDS ErgoOps
I == INSTANCE ErgoIndOps WITH Weak <- FALSE

AgentsEq == {"a1", "a2"}
G1(cur, curcl) ==
  [EmptyGraph EXCEPT
     !.items = ("t" :> [kind |-> "task", state |-> cur, claim |-> curcl, epic |-> "", title |-> "T", body |-> "",
                        created |-> 1, updated |-> 1, results |-> <<>>]),
     !.meta = ("t" :> [cTitle |-> "T", cBody |-> "", cState |-> "todo", cEpic |-> "", created |-> 1,
                       lState |-> 0, lClaim |-> 0, lTitle |-> 0, lBody |-> 0, lEpic |-> 0])]
After(g, evs) == FoldLeft(Apply, g, evs)
Agree ==
  \A cur \in States, curcl \in AgentsEq \cup {""}, s \in States \cup {ABSENT}, c \in AgentsEq \cup {"", ABSENT}, ag \in AgentsEq \cup {""} :
    LET g == G1(cur, curcl)
        d == DecideSet(g, "t", [NoUpd EXCEPT !.state = s, !.claim = c], ag, 5)
        g2 == After(g, d.events)
    IN /\ d.ok = I!Accepts(cur, curcl, s, c, ag)
       /\ d.ok => /\ g2.items["t"].state = I!NewState(cur, curcl, s, c, ag)
                  /\ g2.items["t"].claim = I!NewClaim(cur, curcl, s, c, ag)
ASSUME Agree
VARIABLE x
Init == x = 0
Next == x' = x
=============================================================================
