------------------------------- MODULE MC_Lines -------------------------------
EXTENDS ErgoLines
ASSUME EmitCases
VARIABLE x
Init == x = 0
Next == x' = x
ClassesPartition == /\ NotJSON \cup ReplayFails \cup Harmless \cup {"overlong"} = Classes
                    /\ NotJSON \cap Harmless = {} /\ ReplayFails \cap Harmless = {} /\ NotJSON \cap ReplayFails = {}
=============================================================================
