------------------------------- MODULE MC_Seq -------------------------------
(* Model-checking instantiations of ErgoSeq: constant definitions shared by *)
(* the per-family configurations MC_*.cfg.                                  *)
EXTENDS ErgoSeq

\* Dev is given literally in each generated configuration: {} for the ideal
\* design, the content of asis.json for the code as it is today.

T(t, after) == [title |-> t, body |-> ABSENT, after |-> after]
Doc(t, tasks) == [title |-> t, body |-> ABSENT, tasks |-> tasks]
DocsSmall == {
  Doc("P", <<T("a", <<>>), T("b", <<"a">>)>>),                      \* chain
  Doc("P", <<T("a", <<"b">>), T("b", <<>>)>>),                      \* forward reference
  Doc("P", <<T("a", <<>>), T("b", <<"a", "a">>)>>),                 \* duplicate after
  Doc("P", <<T("a", <<"b">>), T("b", <<"a">>)>>),                   \* 2-cycle
  Doc("P", <<T("a", <<"a">>)>>),                                    \* self
  Doc("P", <<T("a", <<"zz">>)>>),                                   \* dangling
  Doc("P", <<T("a", <<>>), T("a", <<>>)>>),                         \* duplicate title
  Doc("P", <<>>),                                                   \* no tasks
  Doc(" ", <<T("a", <<>>)>>),                                       \* blank epic title
  Doc("P", <<T(" ", <<>>)>>),                                       \* blank task title
  [title |-> "P", body |-> " ", tasks |-> <<T("a", <<>>)>>],         \* blank body
  Doc("UBLANK", <<T("a", <<>>)>>),                                  \* epic title of Unicode whitespace only
  Doc("P", <<T("UBLANK", <<>>)>>),                                  \* task title of Unicode whitespace only
  Doc("P", <<[title |-> "a", body |-> "UBLANK", after |-> <<>>]>>),  \* task body of Unicode whitespace only
  Doc("P", <<T("a", <<>>), T("b", <<"UBLANK">>)>>)                  \* blank after reference
}
NoDocs == {}

\* every document over three task titles: each task's `after` is any subset of the
\* titles (self references, forward references, cycles and DAGs alike)
Titles3 == <<"a", "b", "c">>
AfterSeq(S) == SetToSeq(S)
DocsGen3 == {Doc("G", [k \in 1..3 |-> T(Titles3[k], AfterSeq(f[k]))]) : f \in [1..3 -> SUBSET {"a", "b", "c"}]}
DocsGen2 == {Doc("G", [k \in 1..2 |-> T(Titles3[k], AfterSeq(f[k]))]) : f \in [1..2 -> SUBSET {"a", "b"}]}
DocsAll == DocsSmall \cup DocsGen3 \cup DocsGen2

\* larger documents for the random walks over large configurations: a chain of seven, a
\* task after four others (given out of order), a diamond with forward references, a
\* five-cycle, and a small one so that several plans fit into one walk
T7 == <<"t1", "t2", "t3", "t4", "t5", "t6", "t7">>
DocsBig == {
  Doc("Chain", [k \in 1..7 |-> T(T7[k], IF k = 1 THEN <<>> ELSE <<T7[k - 1]>>)]),
  Doc("Fan", [k \in 1..6 |-> T(T7[k], IF k = 6 THEN <<"t4", "t1", "t3", "t2">> ELSE <<>>)]),
  Doc("Diamond", <<T("t1", <<"t2", "t3">>), T("t2", <<"t4">>), T("t3", <<"t4">>), T("t4", <<>>),
                   T("t5", <<"t1">>), T("t6", <<"t5", "t2">>), T("t7", <<"t6", "t3", "t4", "t1">>)>>),
  Doc("Cycle5", [k \in 1..5 |-> T(T7[k], <<T7[(k % 5) + 1]>>)]),
  Doc("P", <<T("a", <<>>), T("b", <<"a">>)>>)
}
=============================================================================
