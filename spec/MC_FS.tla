-------------------------------- MODULE MC_FS --------------------------------
EXTENDS ErgoFS
ASSUME EmitLayouts
VARIABLE x
Init == x = 0
Next == x' = x
\* design-level facts: with no deviation every spelling resolves alike; the as-is
\* resolution differs exactly on relative spellings
IdealAgrees == \A c \in RealLayouts : ResolveAsIs(c) = Resolve(c)
NearestEnclosing == \A c \in RealLayouts : (Resolve(c) # 0 /\ ~ViaLink(c)) => (Resolve(c) \in c.stores /\ Resolve(c) <= c.start
                                            /\ \A s \in c.stores : s <= c.start => s <= Resolve(c))
=============================================================================
