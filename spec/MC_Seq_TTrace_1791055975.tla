---- MODULE MC_Seq_TTrace_1791055975 ----
EXTENDS Sequences, TLCExt, Toolbox, MC_Seq, Naturals, TLC

_expression ==
    LET MC_Seq_TEExpression == INSTANCE MC_Seq_TEExpression
    IN MC_Seq_TEExpression!expression
----

_trace ==
    LET MC_Seq_TETrace == INSTANCE MC_Seq_TETrace
    IN MC_Seq_TETrace!trace
----

_inv ==
    ~(
        TLCGet("level") = Len(_TETrace)
        /\
        hist = (<<[claim |-> "a1", title |-> "T1", body |-> "<absent>", name |-> "new_task", mode |-> "json", id |-> "", epic |-> "<absent>", state |-> "doing", rsum |-> "<absent>", rpath |-> "<absent>", agent |-> "a1", newids |-> <<"i1">>, rpathok |-> FALSE, rclean |-> "<absent>"]>>)
        /\
        last = ([cmd |-> [claim |-> "a1", title |-> "T1", body |-> "<absent>", name |-> "new_task", mode |-> "json", id |-> "", epic |-> "<absent>", state |-> "doing", rsum |-> "<absent>", rpath |-> "<absent>", agent |-> "a1", newids |-> <<"i1">>, rpathok |-> FALSE, rclean |-> "<absent>"], exit |-> 0, reply |-> [claim |-> "", kind |-> "task", id |-> "i1", epic |-> "", state |-> "todo", ids |-> <<>>, edges |-> {}, pruned |-> {}, status |-> ""], logpre |-> <<>>, gonepre |-> {}])
        /\
        log = (<<[title |-> "T1", body |-> "", id |-> "i1", epic |-> "", state |-> "todo", type |-> "new_task", ts |-> 1], [id |-> "i1", agent |-> "a1", type |-> "claim", ts |-> 3], [id |-> "i1", state |-> "doing", type |-> "state", ts |-> 3]>>)
        /\
        now = (3)
        /\
        nid = (1)
        /\
        gone = ({})
    )
----

_init ==
    /\ nid = _TETrace[1].nid
    /\ last = _TETrace[1].last
    /\ now = _TETrace[1].now
    /\ hist = _TETrace[1].hist
    /\ gone = _TETrace[1].gone
    /\ log = _TETrace[1].log
----

_next ==
    /\ \E i,j \in DOMAIN _TETrace:
        /\ \/ /\ j = i + 1
              /\ i = TLCGet("level")
        /\ nid  = _TETrace[i].nid
        /\ nid' = _TETrace[j].nid
        /\ last  = _TETrace[i].last
        /\ last' = _TETrace[j].last
        /\ now  = _TETrace[i].now
        /\ now' = _TETrace[j].now
        /\ hist  = _TETrace[i].hist
        /\ hist' = _TETrace[j].hist
        /\ gone  = _TETrace[i].gone
        /\ gone' = _TETrace[j].gone
        /\ log  = _TETrace[i].log
        /\ log' = _TETrace[j].log

\* Uncomment the ASSUME below to write the states of the error trace
\* to the given file in Json format. Note that you can pass any tuple
\* to `JsonSerialize`. For example, a sub-sequence of _TETrace.
    \* ASSUME
    \*     LET J == INSTANCE Json
    \*         IN J!JsonSerialize("MC_Seq_TTrace_1791055975.json", _TETrace)

=============================================================================

 Note that you can extract this module `MC_Seq_TEExpression`
  to a dedicated file to reuse `expression` (the module in the 
  dedicated `MC_Seq_TEExpression.tla` file takes precedence 
  over the module `MC_Seq_TEExpression` below).

---- MODULE MC_Seq_TEExpression ----
EXTENDS Sequences, TLCExt, Toolbox, MC_Seq, Naturals, TLC

expression == 
    [
        \* To hide variables of the `MC_Seq` spec from the error trace,
        \* remove the variables below.  The trace will be written in the order
        \* of the fields of this record.
        nid |-> nid
        ,last |-> last
        ,now |-> now
        ,hist |-> hist
        ,gone |-> gone
        ,log |-> log
        
        \* Put additional constant-, state-, and action-level expressions here:
        \* ,_stateNumber |-> _TEPosition
        \* ,_nidUnchanged |-> nid = nid'
        
        \* Format the `nid` variable as Json value.
        \* ,_nidJson |->
        \*     LET J == INSTANCE Json
        \*     IN J!ToJson(nid)
        
        \* Lastly, you may build expressions over arbitrary sets of states by
        \* leveraging the _TETrace operator.  For example, this is how to
        \* count the number of times a spec variable changed up to the current
        \* state in the trace.
        \* ,_nidModCount |->
        \*     LET F[s \in DOMAIN _TETrace] ==
        \*         IF s = 1 THEN 0
        \*         ELSE IF _TETrace[s].nid # _TETrace[s-1].nid
        \*             THEN 1 + F[s-1] ELSE F[s-1]
        \*     IN F[_TEPosition - 1]
    ]

=============================================================================



Parsing and semantic processing can take forever if the trace below is long.
 In this case, it is advised to uncomment the module below to deserialize the
 trace from a generated binary file.

\*
\*---- MODULE MC_Seq_TETrace ----
\*EXTENDS IOUtils, MC_Seq, TLC
\*
\*trace == IODeserialize("MC_Seq_TTrace_1791055975.bin", TRUE)
\*
\*=============================================================================
\*

---- MODULE MC_Seq_TETrace ----
EXTENDS MC_Seq, TLC

trace == 
    <<
    ([hist |-> <<>>,last |-> [cmd |-> [name |-> "init", mode |-> "json"], exit |-> 0, reply |-> [claim |-> "", kind |-> "", id |-> "", epic |-> "", state |-> "", ids |-> <<>>, edges |-> {}, pruned |-> {}, status |-> ""], logpre |-> <<>>, gonepre |-> {}],log |-> <<>>,now |-> 0,nid |-> 0,gone |-> {}]),
    ([hist |-> <<[claim |-> "a1", title |-> "T1", body |-> "<absent>", name |-> "new_task", mode |-> "json", id |-> "", epic |-> "<absent>", state |-> "doing", rsum |-> "<absent>", rpath |-> "<absent>", agent |-> "a1", newids |-> <<"i1">>, rpathok |-> FALSE, rclean |-> "<absent>"]>>,last |-> [cmd |-> [claim |-> "a1", title |-> "T1", body |-> "<absent>", name |-> "new_task", mode |-> "json", id |-> "", epic |-> "<absent>", state |-> "doing", rsum |-> "<absent>", rpath |-> "<absent>", agent |-> "a1", newids |-> <<"i1">>, rpathok |-> FALSE, rclean |-> "<absent>"], exit |-> 0, reply |-> [claim |-> "", kind |-> "task", id |-> "i1", epic |-> "", state |-> "todo", ids |-> <<>>, edges |-> {}, pruned |-> {}, status |-> ""], logpre |-> <<>>, gonepre |-> {}],log |-> <<[title |-> "T1", body |-> "", id |-> "i1", epic |-> "", state |-> "todo", type |-> "new_task", ts |-> 1], [id |-> "i1", agent |-> "a1", type |-> "claim", ts |-> 3], [id |-> "i1", state |-> "doing", type |-> "state", ts |-> 3]>>,now |-> 3,nid |-> 1,gone |-> {}])
    >>
----


=============================================================================

---- CONFIG MC_Seq_TTrace_1791055975 ----
CONSTANTS
    Dev <- AsIsDev
    MaxTasks = 2
    MaxEpics = 1
    MaxDepth = 5
    Agents = { "a1" , "a2" }
    CmdNames = { "new_task" , "new_epic" , "set" , "claim_id" , "claim" }
    StateArgs = { "todo" , "doing" , "done" , "blocked" , "canceled" , "error" , "bogus" }
    ClaimArgs = { "" , "a1" }
    Extras = { }
    PlanDocs <- NoDocs
    ViewMode = "graph"
    Emit = "none"

INVARIANT
    _inv

CHECK_DEADLOCK
    \* CHECK_DEADLOCK off because of PROPERTY or INVARIANT above.
    FALSE

INIT
    _init

NEXT
    _next

CONSTANT
    _TETrace <- _trace

ALIAS
    _expression
=============================================================================
\* Generated on Sat Oct 03 19:32:58 UTC 2026