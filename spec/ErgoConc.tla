------------------------------ MODULE ErgoConc ------------------------------
(***************************************************************************)
(* Verdict formulas for OBSERVED CONCURRENT / CRASHED executions (layer P). *)
(*                                                                         *)
(* A record h describes one run of a few real ergo processes under the     *)
(* controller:                                                             *)
(*   h.procs   sequence of [name, cmd, exit, busy, killed, inv, res, reply]*)
(*             inv/res: controller clock at start / observed exit          *)
(*   h.pre, h.post        Views before the run / at quiescence             *)
(*   h.logpre, h.logpost  abstract logs                                    *)
(*   h.readers sequence of [name, exit, items, snaps]: what a lock-free    *)
(*             `list --json --all` printed, and the logs that were on disk *)
(*             during its window (in order)                                *)
(*   h.after   observations of the continuation run after a crash          *)
(*   h.facts   byte-level facts computed by the harness                    *)
(*                                                                         *)
(* "No ordering explains it": the commands that reported success, run one  *)
(* at a time by the IDEAL sequential specification in some order           *)
(* consistent with real time, must reproduce every reply and the final     *)
(* observable state.                                                       *)
(***************************************************************************)
EXTENDS ErgoOps, Functions

Ideal == INSTANCE ErgoCmds WITH Dev <- {}
LOCAL P == INSTANCE ErgoProps WITH Dev <- {}

Idx(h) == 1..Len(h.procs)
Succ(h) == {k \in Idx(h) : h.procs[k].exit = 0}
Perms(S) == {o \in [1..Cardinality(S) -> S] : \A i, j \in 1..Cardinality(S) : i # j => o[i] # o[j]}
\* real time: a command that had finished before another started comes first
RTOK(h, o) == \A i, j \in DOMAIN o : i < j => ~(h.procs[o[j]].res # 0 /\ h.procs[o[j]].res < h.procs[o[i]].inv)

ReplyMatches(c, want, got) ==
  CASE c.name = "claim" -> want.id = got.id /\ want.status = got.status
    [] c.name \in {"new_task", "new_epic"} -> want.id = got.id
    [] c.name = "prune" -> want.pruned = got.pruned
    [] OTHER -> TRUE

\* all logs the serial execution of o can end in, with every reply reproduced
RECURSIVE SerialLogs(_, _, _, _)
SerialLogs(h, log, t, o) ==
  IF o = <<>> THEN {log}
  ELSE LET p == h.procs[Head(o)]
           rs == {r \in Ideal!Outcomes(log, t, p.cmd) : r.exit = 0 /\ ReplyMatches(p.cmd, p.reply, r.reply)}
       IN UNION {SerialLogs(h, r.log, r.now + 5, Tail(o)) : r \in rs}

MaxTs(log) == IF log = <<>> THEN 0
              ELSE CHOOSE m \in {log[k].ts : k \in 1..Len(log)} : \A k \in 1..Len(log) : log[k].ts <= m

Explained(h) ==
  \E o \in Perms(Succ(h)) :
     /\ RTOK(h, o)
     /\ \E l \in SerialLogs(h, h.logpre, MaxTs(h.logpre) + 5, o) :
           NoTime(View(Replay(l))) = NoTime(h.post)

\* C02 - serialisable; failed commands (lock busy included) contributed nothing
C02_serial(h) == h.facts.crashes = 0 => Explained(h)
C02_wholelines(h) == h.facts.crashes = 0 => h.facts.log_ok
C02_nowait(h) == h.facts.all_exited
C01_nowait(h) == h.facts.all_exited       \* a claimer never waits for the lock: it fails fast
C02_busy_fast(h) == \A k \in Idx(h) : h.procs[k].busy => h.procs[k].exit # 0

\* C01 - claim: restricted to runs whose commands are all `claim`s (plus commands
\* that put tasks back); the same explanation, plus the post-state of every winner
Winners(h) == {k \in Succ(h) : h.procs[k].cmd.name = "claim" /\ h.procs[k].reply.id # ""}
C01_serial(h) == (h.facts.crashes = 0 /\ \E k \in Idx(h) : h.procs[k].cmd.name = "claim") => Explained(h)
C01_no_double(h) ==
  \A a, b \in Winners(h) :
     (a # b /\ h.procs[a].reply.id = h.procs[b].reply.id) =>
        \E k \in Succ(h) : h.procs[k].cmd.name = "set" /\ h.procs[k].cmd.id = h.procs[a].reply.id
                           /\ h.procs[k].cmd.state = "todo"
C01_outcomes(h) ==
  \A k \in Idx(h) : h.procs[k].cmd.name = "claim" /\ ~h.procs[k].killed =>
     \/ h.procs[k].exit = 0 /\ h.procs[k].reply.id # "" /\ h.procs[k].reply.status = ""
     \/ h.procs[k].exit = 0 /\ h.procs[k].reply.id = "" /\ h.procs[k].reply.status = "no_ready"
     \/ h.procs[k].exit # 0 /\ h.procs[k].busy
C01_winner_holds(h) ==
  \A k \in Winners(h) :
     LET id == h.procs[k].reply.id IN
       \* unless a later command of the run touched the task again
       (\A j \in Succ(h) : j # k => ~("id" \in DOMAIN h.procs[j].cmd /\ h.procs[j].cmd.id = id)
                                   /\ ~(j \in Winners(h) /\ h.procs[j].reply.id = id))
       => (id \in DOMAIN h.post /\ h.post[id].state = "doing" /\ h.post[id].claim = h.procs[k].cmd.agent)

\* C07 (concurrent half): the invariants on the final state
C07_final(h) == /\ Acyclic(P!VEdges(h.post)) \/ ~Acyclic(P!VEdges(h.pre))
                /\ \A i \in DOMAIN h.post : i \notin h.post[i].deps
                /\ \A i, j \in DOMAIN h.post : (j \in h.post[i].deps) <=> (i \in h.post[j].rdeps)

\* concurrent halves of sequential properties: the same explanation, asked of
\* the scenarios that exercise prune / failing commands / epic references
C06_serial(h) == h.facts.crashes = 0 => Explained(h)
C06_final(h) == \A t \in P!VTasks(h.post) :
                   ClaimRuleOK(h.post[t].state, h.post[t].claim)
                   \/ (t \in DOMAIN h.pre /\ h.pre[t].state = h.post[t].state /\ h.pre[t].claim = h.post[t].claim)
C15_final(h) == Acyclic(P!VWaits(h.post)) \/ ~Acyclic(P!VWaits(h.pre))
C08_serial(h) == h.facts.crashes = 0 => Explained(h)     \* "nothing ready" only when nothing is ready
C09_serial(h) == h.facts.crashes = 0 => Explained(h)
C10_serial(h) == h.facts.crashes = 0 => Explained(h)
C14_final(h) == \A t \in P!VTasks(h.post) : P!EpicRefOK(h.post, t)
\* prune tells the truth about what it removed
C16_prune_truth(h) ==
  LET prunes == {k \in Succ(h) : h.procs[k].cmd.name = "prune"}
      told == UNION {h.procs[k].reply.pruned : k \in prunes}
  IN (h.facts.crashes = 0 /\ prunes # {}) => told \cap DOMAIN h.pre = DOMAIN h.pre \ DOMAIN h.post

(***************************************************************************)
(* C13 - a lock-free reader succeeds and shows a state the store passed    *)
(* through: the view of some whole-event prefix between the logs on disk   *)
(* during its window (appends), or exactly one of them (rewrites).         *)
(***************************************************************************)
ListProj(v) == {[id |-> i, state |-> v[i].state, claim |-> v[i].claim, epic |-> v[i].epic,
                 title |-> v[i].title, ready |-> v[i].ready, blocked |-> v[i].blocked] :
                  i \in {j \in DOMAIN v : v[j].kind = "task"}}
Between(a, b) == IF IsPrefix(a, b) THEN {SubSeq(b, 1, n) : n \in Len(a)..Len(b)} ELSE {a, b}
Passed(snaps) == UNION {Between(snaps[k], snaps[k + 1]) : k \in 1..(Len(snaps) - 1)}
                 \cup {snaps[k] : k \in 1..Len(snaps)}
\* `show --json <epic>`: the epic and its children
ShowProj(v, e) == IF e \notin DOMAIN v THEN {}
                  ELSE {[id |-> i, state |-> v[i].state, claim |-> v[i].claim, epic |-> v[i].epic, title |-> v[i].title] :
                          i \in {e} \cup P!VChildren(v, e)}
C13_reader(h) ==
  \A k \in 1..Len(h.readers) :
     LET r == h.readers[k] IN
       \* (a writer killed mid-line is C03's business unless the reader was in flight: see D18)
       /\ r.exit = 0
       /\ \E l \in Passed(r.snaps) :
             /\ Replay(l).err = ""
             /\ IF r.kind = "show"
                  THEN ShowProj(View(Replay(l)), r.rid) = {r.items[j] : j \in 1..Len(r.items)}
                  ELSE ListProj(View(Replay(l))) = {r.items[j] : j \in 1..Len(r.items)}

(***************************************************************************)
(* C03 / C04 - process death.  h.after = the continuation: a sequence of   *)
(* [cmd, exit, readable, view].                                            *)
(***************************************************************************)
Killed(h) == {k \in Idx(h) : h.procs[k].killed}
\* what the store may show after the crash: the state before, plus any prefix
\* of what the interrupted command(s) would have written
C03_readable(h) == h.facts.crashes > 0 => h.facts.readable_after_crash
C03_only_own_missing(h) ==
  (h.facts.crashes > 0 /\ h.facts.readable_after_crash /\ Cardinality(Idx(h)) = 1) =>
     LET p == h.procs[1]
         full == {r.log : r \in Ideal!Outcomes(h.logpre, MaxTs(h.logpre) + 5, p.cmd)}
         \* the tombstones of one prune are written in an order the specification does not fix
         \* (ids are opaque): a write cut short may have got out ANY of them
         Some(f) == IF p.cmd.name # "prune" \/ ~IsPrefix(h.logpre, f) THEN {}
                    ELSE LET n0 == Len(h.logpre) n1 == Len(f) IN
                         {h.logpre \o SelectSeq(SubSeq(f, n0 + 1, n1), LAMBDA e : e.id \in S) :
                            S \in SUBSET {f[k].id : k \in (n0 + 1)..n1}}
     IN \E f \in full : \E l \in Between(h.logpre, f) \cup {f} \cup Some(f) :
           NoTime(View(Replay(l))) = NoTime(h.post)
C03_continues(h) ==
  h.facts.crashes > 0 =>
     \A k \in 1..Len(h.after) : h.after[k].readable /\ (h.after[k].mutation => h.after[k].exit = 0 /\ h.after[k].ineffect)
\* what existed when the dust settled is untouched by the continuation (which
\* only adds a task, closes it and compacts)
C03_acked_survive(h) ==
  h.facts.crashes > 0 =>
     \A k \in 1..Len(h.after) : h.after[k].readable =>
        \A i \in DOMAIN h.post :
           /\ i \in DOMAIN h.after[k].view
           /\ NoTime(h.after[k].view)[i] = NoTime(h.post)[i]
\* what a process that was NOT killed reported as created exists afterwards
C03_acked_effects(h) ==
  h.facts.crashes > 0 =>
     \A k \in Succ(h) : (~h.procs[k].killed /\ h.procs[k].cmd.name \in {"new_task", "new_epic"} /\ h.procs[k].reply.id # "")
                            => h.procs[k].reply.id \in DOMAIN h.post
\* ... and it stays that way: the next commands do not resurrect half of the
\* interrupted command (a leftover temp file, for instance)
C04_stays(h) == C03_acked_survive(h)
C04_all_or_nothing(h) ==
  (h.facts.crashes > 0 /\ h.facts.readable_after_crash /\ h.facts.torn = "between" /\ Cardinality(Idx(h)) = 1) =>
     LET p == h.procs[1]
         full == {r.log : r \in Ideal!Outcomes(h.logpre, MaxTs(h.logpre) + 5, p.cmd)}
     IN \/ NoTime(h.post) = NoTime(h.pre)
        \/ \E f \in full : NoTime(View(Replay(f))) = NoTime(h.post)
=============================================================================
