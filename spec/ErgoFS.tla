------------------------------- MODULE ErgoFS -------------------------------
(***************************************************************************)
(* Layer P': where commands find the store.                                *)
(*                                                                         *)
(* A layout is a chain of nested directories  L1 / L2 / L3  with a .ergo   *)
(* directory at any non-empty subset of the levels; a command is started   *)
(* AT some level, and that directory is SPELLED in one of the ways the CLI *)
(* admits (cwd only; --dir absolute; --dir . ; --dir .. from the child;    *)
(* --dir <child> from the parent; the .ergo directory itself, absolute or  *)
(* relative).  The store a command must use is the NEAREST ENCLOSING one;  *)
(* inside it the log file is plans.jsonl if present, else the legacy       *)
(* events.jsonl if present, else plans.jsonl (created); the lock file is   *)
(* recreated on demand; `init` on an existing store changes nothing.       *)
(*                                                                         *)
(* Dev: "D12" relative --dir is not made absolute (the upward walk stops   *)
(*            at "."), "D11" init creates an empty plans.jsonl next to a   *)
(*            legacy events.jsonl (shadowing it).                          *)
(***************************************************************************)
EXTENDS Naturals, Sequences, FiniteSets, TLC, Json

CONSTANT Dev

Levels == 1..3
\* "*_link": the start directory is entered through a symbolic link that lives in
\* ANOTHER project (which has its own store, level 9).  "Enclosing" can then be read
\* along the path as spelled (the shell's $PWD: level 9) or along the physical
\* location; the property does not choose, so the model admits both readings - but
\* every spelling and every command must follow the SAME one.
Spellings == {"cwd", "dir_abs", "dir_dot", "dir_dotdot", "dir_child", "ergo_abs", "ergo_rel",
              "cwd_link", "dir_dot_link", "dir_abs_link"}
ViaLink(c) == c.spell \in {"cwd_link", "dir_dot_link", "dir_abs_link"}
Presence == {"no", "empty", "full"}      \* a log file: absent, present but empty, holding items
FileSets == {[plans |-> p, events |-> e, lock |-> l] : p \in Presence, e \in Presence, l \in BOOLEAN}

Layouts ==
  {[stores |-> s, start |-> st, spell |-> sp, files |-> f] :
      s \in (SUBSET Levels) \ {{}}, st \in Levels, sp \in Spellings, f \in FileSets}

\* does the spelling exist for this layout?
Exists(c) ==
  /\ (c.spell = "dir_dotdot" => c.start < 3)          \* needs a child directory to stand in
  /\ (c.spell = "dir_child" => c.start > 1)           \* needs a parent directory to stand in
  /\ (c.spell \in {"ergo_abs", "ergo_rel"} => c.start \in c.stores)

Below(c, l) == {x \in c.stores : x <= l}
MaxOf(S) == CHOOSE m \in S : \A x \in S : x <= m
\* the level of the store a command started at c.start must use (0 = none)
Physical(c) == IF Below(c, c.start) = {} THEN 0 ELSE MaxOf(Below(c, c.start))
Logical(c) == IF c.start \in c.stores THEN c.start ELSE 9
Resolve(c) == IF ViaLink(c) THEN Logical(c) ELSE Physical(c)
\* (0: under the physical reading the directory may be enclosed by no store at all)
LinkCands(c) == {Logical(c), Physical(c)}

\* what the code does today with a relative --dir: "." never walks up; ".."
\* looks at the parent, then at the directory the process stands in (downward!)
ResolveAsIs(c) ==
  IF "D12" \notin Dev THEN Resolve(c)
  ELSE CASE c.spell \in {"dir_dot", "ergo_rel"} -> IF c.start \in c.stores THEN c.start ELSE 0
         [] c.spell = "dir_dotdot" -> IF c.start \in c.stores THEN c.start
                                      ELSE IF (c.start + 1) \in c.stores THEN c.start + 1 ELSE 0
         [] c.spell = "dir_child" -> IF c.start \in c.stores THEN c.start
                                     ELSE IF (c.start - 1) \in c.stores THEN c.start - 1 ELSE 0
         [] OTHER -> Resolve(c)

\* the log file inside the resolved store (c.files describes that store)
\* (presence decides, not content: an empty plans.jsonl still wins)
LogFile(c) == IF c.files.plans # "no" THEN "plans" ELSE IF c.files.events # "no" THEN "events" ELSE "plans"

RealLayouts == {c \in Layouts : Exists(c)}

(***************************************************************************)
(* Verdicts on an observed case r = [cfg, where, cmds, lock_after, init].  *)
(*   where        level of the store `where --json` names (0 = it failed)  *)
(*   cmds         sequence of [name, mutating, exit, touched, saw]         *)
(*                touched = set of <<level, file>> whose bytes changed,    *)
(*                saw = set of <<level, file>> markers a read displayed    *)
(*   lock_after   the resolved store has a lock file after the commands    *)
(*   init         [exit, changed_existing, same_items] over three spellings *)
(*                of the request: `init`, `init .`, `init <abs dir>`        *)
(***************************************************************************)
(*   link_wheres  (link layouts) what `where` names under each link spelling *)
Pairs(s) == {<<s[k][1], s[k][2]>> : k \in DOMAIN s}
\* the store the commands of this case must use
Must(r) == IF ViaLink(r.cfg) THEN r.where ELSE Resolve(r.cfg)
C18_where(r) == IF ViaLink(r.cfg)
                  THEN /\ r.where \in LinkCands(r.cfg)
                       /\ \A k \in DOMAIN r.link_wheres : r.link_wheres[k] = r.where
                  ELSE r.where = Resolve(r.cfg)
C18_same_store(r) ==
  \A k \in DOMAIN r.cmds :
     LET c == r.cmds[k] lvl == Must(r) IN
       IF lvl = 0 THEN c.exit # 0 /\ Pairs(c.touched) = {}
       ELSE /\ \A t \in Pairs(c.touched) : t[1] = lvl /\ t[2] \in {LogFile(r.cfg), "lock", "tmp"}
            /\ \A t \in Pairs(c.saw) : t = <<lvl, LogFile(r.cfg)>>
C18_lands(r) ==
  \A k \in DOMAIN r.cmds :
     LET c == r.cmds[k] IN
       (Must(r) # 0 /\ c.mutating /\ c.exit = 0) => <<Must(r), LogFile(r.cfg)>> \in Pairs(c.touched)
C18_reads_work(r) ==
  \A k \in DOMAIN r.cmds :
     LET c == r.cmds[k] IN (Must(r) # 0 /\ ~c.mutating) => c.exit = 0
C18_lock(r) == Must(r) # 0 => r.lock_after
C18_init(r) == r.init.ran => (r.init.exit = 0 /\ ~r.init.changed_existing /\ r.init.same_items)

EmitLayouts == PrintT("@ST " \o ToJson(RealLayouts))
=============================================================================
