------------------------------ MODULE ErgoLines ------------------------------
(***************************************************************************)
(* The log as an arbitrary file (C12): lines are abstracted to CLASSES;    *)
(* a case places one line of a class into an otherwise valid history, in   *)
(* the middle or at the end, with or without a final newline, and runs one *)
(* command on it - twice.  The harness concretises the class with seeded   *)
(* bytes and reports facts; this module says which outcomes are allowed.   *)
(***************************************************************************)
EXTENDS Naturals, Sequences, FiniteSets, TLC, Json

Classes == {"valid", "blank", "garbage", "conflict", "nonobject", "truncated", "longutf8",
            "nul", "bom", "overlong", "unknown_type", "empty_object", "wrong_field_type",
            "bad_timestamp", "duplicate_create", "event_before_create", "tie_timestamps",
            "deep_nesting", "huge_valid_body", "dep_cycle", "many_edges"}
Positions == {"middle", "last"}
\* (*_human: the same read without --json)
Commands == {"list", "list_epics", "list_ready", "show", "prune_dry", "where", "quickstart",
             "list_human", "list_all_human", "show_human", "show_epic_human",
             "claim", "new_task", "set", "compact", "prune", "sequence", "sequence_rm", "sequence_new"}
ReadOnly == {"list", "list_epics", "list_ready", "show", "prune_dry", "where", "quickstart",
             "list_human", "list_all_human", "show_human", "show_epic_human"}

\* lines that are not valid JSON (for an Event): the error must name file and line
NotJSON == {"garbage", "conflict", "nonobject", "truncated", "longutf8", "nul", "bom"}
\* lines that are valid JSON but make replay fail: an error message is enough
ReplayFails == {"wrong_field_type", "bad_timestamp", "duplicate_create"}
Harmless == {"valid", "blank", "unknown_type", "empty_object", "event_before_create", "tie_timestamps",
             "deep_nesting", "huge_valid_body", "dep_cycle", "many_edges"}

Cases == {[class |-> c, pos |-> p, nl |-> n, cmd |-> m] :
            c \in Classes, p \in Positions, n \in BOOLEAN, m \in Commands}
\* a final line without newline that does not parse is a torn tail: tolerated
Tolerated(x) == x.class \in NotJSON /\ x.pos = "last" /\ ~x.nl
NeedsLog(x) == x.cmd \notin {"where", "quickstart"}

(***************************************************************************)
(* r = [case, exit, timeout, stderr, stdout_ok, names_line, same_twice,    *)
(*      bytes_unchanged]                                                   *)
(***************************************************************************)
\* every command terminates promptly without crashing: shows state or exits
\* non-zero with a message
C12_file_total(r) ==
  /\ ~r.timeout
  /\ r.exit \in {0, 1}
  /\ (r.exit = 1 => r.stderr)
  /\ (r.exit = 0 => r.stdout_ok)
\* a line that is not valid JSON is reported with file and line
C12_file_names_line(r) ==
  (r.case.class \in NotJSON /\ ~Tolerated(r.case) /\ NeedsLog(r.case)) => (r.exit = 1 /\ r.names_line)
\* valid-but-odd lines do not make commands fail
C12_file_shows(r) ==
  (r.case.class \in Harmless /\ r.case.cmd \in ReadOnly /\ r.case.cmd \notin {"show", "show_human"}) => r.exit = 0
\* the same log gives the same output
C12_file_deterministic(r) == r.same_twice
\* reads never change the log
C12_file_pure(r) == r.case.cmd \in ReadOnly => r.bytes_unchanged

EmitCases == PrintT("@ST " \o ToJson(Cases))
=============================================================================
