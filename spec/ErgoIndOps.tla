----------------------------- MODULE ErgoIndOps -----------------------------
(***************************************************************************)
(* Typed, variable-free restatement of the state/claim part of the ideal   *)
(* `set` decision, shared by ErgoInd (Apalache) and MC_IndEq (TLC checks   *)
(* it equal to ErgoOps!DecideSet on every input).  Weak = TRUE drops the   *)
(* guard that refuses to clear the claim of a doing/error task (deviation  *)
(* D2): the inductive step must then FAIL - the proof is not vacuous.      *)
(***************************************************************************)
EXTENDS Integers, FiniteSets

CONSTANT
  \* @type: Bool;
  Weak

StatesI == {"todo", "doing", "done", "blocked", "canceled", "error"}
NoneI == "<absent>"
\* @type: (Str, Str) => Bool;
TransOK(from, to) ==
  \/ from = to
  \/ from = "todo" /\ to \in {"doing", "done", "blocked", "canceled"}
  \/ from = "doing" /\ to \in {"todo", "done", "blocked", "canceled", "error"}
  \/ from = "blocked" /\ to \in {"todo", "doing", "done", "canceled"}
  \/ from \in {"done", "canceled"} /\ to = "todo"
  \/ from = "error" /\ to \in {"todo", "doing", "canceled"}

ClearsI(s) == s \in {"todo", "done", "canceled"}
NeedsI(s) == s \in {"doing", "error"}
\* @type: (Str, Str) => Bool;
RuleOK(s, c) == (NeedsI(s) => c # "") /\ (ClearsI(s) => c = "")

\* the request: s = NoneI (no state field) or a state; c = NoneI / "" / agent; ag = "" or agent
\* @type: (Str, Str, Str, Str, Str) => Bool;
Accepts(cur, curcl, s, c, ag) ==
  LET implicit == curcl = "" /\ s \in {"doing", "error"} /\ c = NoneI
      cv == IF implicit THEN ag ELSE c
      cset == cv # NoneI
      newcl == IF s # NoneI /\ ClearsI(s) THEN "" ELSE IF cset THEN cv ELSE curcl
      implied == cset /\ cv # "" /\ s = NoneI
  IN /\ ~(implicit /\ ag = "")
     /\ (s # NoneI => (TransOK(cur, s) /\ RuleOK(s, newcl)))
     /\ (implied => TransOK(cur, "doing"))
     /\ (Weak \/ ~(cset /\ cv = "" /\ s = NoneI /\ NeedsI(cur)))

\* @type: (Str, Str, Str, Str, Str) => Str;
NewState(cur, curcl, s, c, ag) ==
  LET implicit == curcl = "" /\ s \in {"doing", "error"} /\ c = NoneI
      cv == IF implicit THEN ag ELSE c
  IN IF s # NoneI THEN s ELSE IF cv # NoneI /\ cv # "" THEN "doing" ELSE cur
\* @type: (Str, Str, Str, Str, Str) => Str;
NewClaim(cur, curcl, s, c, ag) ==
  LET implicit == curcl = "" /\ s \in {"doing", "error"} /\ c = NoneI
      cv == IF implicit THEN ag ELSE c
      ns == NewState(cur, curcl, s, c, ag)
  IN IF ClearsI(ns) /\ (s # NoneI \/ (cv # NoneI /\ cv # "")) /\ s # NoneI THEN ""
     ELSE IF cv # NoneI THEN cv ELSE curcl

=============================================================================
