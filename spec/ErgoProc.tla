------------------------------ MODULE ErgoProc ------------------------------
(***************************************************************************)
(* Layer P: ergo as CONCURRENT PROCESSES.                                  *)
(*                                                                         *)
(* Each process runs one CLI command as a program over critical sections;  *)
(* a process is always "parked" at one of the code's sync points (the      *)
(* verif hooks) and one spec step = the code between that sync point and   *)
(* the next one, so a schedule of this model is literally a sequence of    *)
(* gate releases for the controller:                                       *)
(*                                                                         *)
(*   flock      about to try the non-blocking exclusive flock              *)
(*   acquired   holds the lock, has not read yet                           *)
(*   scanned    has read the log (snapshot) - decision follows             *)
(*   append     about to write one event line (one write(2) per event)     *)
(*   tmp        about to write the temp file (plan / compact)              *)
(*   rename     temp file complete, about to rename it over the log        *)
(*   renamed    rename done                                                *)
(*   releasing  about to unlock        released   unlocked                 *)
(*   exit       terminated (outcome recorded)                              *)
(* Readers (list/show) take no lock:  start, opened, probed, exit.         *)
(*                                                                         *)
(* The file is a sequence of complete lines plus a tail:                   *)
(*   "clean" | "partial" (a fragment without newline) | "full" (a whole    *)
(*   JSON object without its newline).  Torn tails arise only from process *)
(*   death inside write(2).  A rename installs a NEW inode; a reader keeps *)
(*   reading the inode it opened.                                          *)
(*                                                                         *)
(* Deviations (Dev):                                                       *)
(*   "multi"  commands run as several sections (D5 D6 D7); ideal: one      *)
(*   "D8"     append after a torn tail glues the new line onto it          *)
(*   "D9"     multi-event batches are written line by line (ideal: batches *)
(*            of more than one event go through the atomic replace)        *)
(*   "D18"    the reader's newline probe precedes its scan                 *)
(***************************************************************************)
EXTENDS ErgoCmds, Json

CONSTANTS
  Scenarios,      \* set of [name, init, cmds, readers]: the log at the start, writer
                  \* process -> command record, set of reader process names
  MaxCrashes,     \* how many processes may be killed
  Emit

VARIABLES
  scn,        \* the scenario (chosen initially, never changes)
  inodes,     \* inode number -> [lines, tail]
  cur,        \* inode number of the log file
  tmp,        \* <<>> (absent) or [lines, tail] of plans.jsonl.tmp
  lock,       \* "" or the holder
  lockfile,   \* does .ergo/lock exist (it is recreated on demand: stat, then create)
  logfile,    \* does the log file exist (init creates it: stat, then create - without the lock)
  pc,         \* process -> parking point
  sec,        \* process -> index of the current section
  snap,       \* process -> log snapshot read under the lock
  pend,       \* process -> events still to write
  outc,       \* process -> [exit, reply, busy] once known
  rd,         \* reader -> [inode, nl, seen, err]
  now, crashes,
  torn,       \* did some process die INSIDE a write(2) (history)
  acks,       \* sequence of [proc, exit] in order of termination (history)
  sched       \* witness schedule (history; hidden from VIEW)
vars == <<scn, inodes, cur, tmp, lock, lockfile, logfile, pc, sec, snap, pend, outc, rd, now, crashes, torn, acks, sched>>

Procs   == DOMAIN scn.cmds
Readers == scn.readers
CmdOf   == scn.cmds
InitLog == scn.init

Garbage == [type |-> "<garbage>", ts |-> 0]
Content(lines, tail) == [lines |-> lines, tail |-> tail]
File == inodes[cur]

\* what a (successful) read of a content yields; a glued line in it is fatal
HasGarbage(c) == \E k \in 1..Len(c.lines) : c.lines[k].type = "<garbage>"
ReadEvents(c) == c.lines     \* ("full" tails carry their event in `lines` already, see AppendLine)

(***************************************************************************)
(* Programs.                                                               *)
(***************************************************************************)
SecsOf(c) ==
  IF "multi" \notin Dev THEN <<[k |-> "whole"]>>
  ELSE
  CASE c.name = "new_task" ->
         <<[k |-> "create"]>>
         \o (IF HasResult(c) THEN <<[k |-> "result"]>> ELSE <<>>)
         \o (IF ~EmptyUpd(UpdOf(c)) THEN <<[k |-> "set"]>> ELSE <<>>)
    [] c.name = "set" ->
         (IF HasResult(c) THEN <<[k |-> "result"]>> ELSE <<>>)
         \o (IF ~EmptyUpd(UpdOf(c)) THEN <<[k |-> "set"]>> ELSE <<>>)
    [] c.name = "sequence" -> [j \in 1..(Len(c.ids) - 1) |-> [k |-> "link", j |-> j]]
    [] OTHER -> <<[k |-> "whole"]>>

\* input validation that happens before any section
PreValid(c) ==
  CASE c.name = "new_task" -> IF c.mode = "json" THEN JsonFieldsOK(c, TRUE) ELSE ~Blank(c.title)
    [] c.name = "set" -> (c.mode = "json" => JsonFieldsOK(c, FALSE)) /\ ResultPairOK(c)
                          /\ (HasResult(c) \/ ~EmptyUpd(UpdOf(c)))
    [] c.name \in {"claim", "claim_id"} -> c.agent # ""
    [] OTHER -> TRUE

\* decision of section number s of command c on snapshot l at time t:
\* [ok, events, newlog (for rewrites), rewrite, reply]
DecideSecOf(c, s, l, t, created) ==
  LET sd == SecsOf(c)[s]
      g  == Replay(l)
      id == IF c.name = "new_task" THEN created ELSE IF "id" \in DOMAIN c THEN c.id ELSE ""
      plain(d) == [ok |-> d.ok, events |-> d.events, rewrite |-> FALSE, newlog |-> <<>>,
                   reply |-> Reply0, noready |-> d.err = "no_ready"]
  IN
  CASE sd.k = "whole" ->
         LET r == CHOOSE x \in Outcomes(l, t, c) : TRUE
         IN [ok |-> r.exit = 0,
             events |-> IF IsPrefix(l, r.log) THEN SubSeq(r.log, Len(l) + 1, Len(r.log)) ELSE <<>>,
             rewrite |-> c.name \in {"plan", "compact"} /\ r.exit = 0 /\ r.log # l,
             newlog |-> r.log, reply |-> r.reply, noready |-> r.reply.status = "no_ready"]
    [] sd.k = "create" ->
         plain(DecideCreate(g, "task", IF Fld(c, c.epic) = ABSENT THEN "" ELSE c.epic,
                            IF c.mode = "json" THEN c.title ELSE Trim(c.title),
                            IF Fld(c, c.body) = ABSENT THEN "" ELSE c.body, NewId(c, 1), t))
    [] sd.k = "result" -> plain(DecideResult(g, id, c.rsum, c.rpath, c.rpathok, t))
    [] sd.k = "set" -> plain(DecideSet(g, id, UpdOf(c), c.agent, t))
    [] sd.k = "link" -> plain(DecideLink(g, "link", c.ids[sd.j + 1], c.ids[sd.j], t))

(***************************************************************************)
(* Steps.                                                                  *)
(***************************************************************************)
Note(p, what) == sched' = Append(sched, <<p, what>>)

Terminate(p, exit, busy) ==
  /\ pc' = [pc EXCEPT ![p] = "exit"]
  /\ outc' = [outc EXCEPT ![p] = [exit |-> exit, busy |-> busy, reply |-> outc[p].reply]]
  /\ acks' = Append(acks, [proc |-> p, exit |-> exit])

\* start: validation, then on to the first flock
\* `init` takes no lock: it stats the log file and creates it if it was missing.
\* D17: the creation truncates (O_TRUNC) whatever another process wrote meanwhile
InitBegin(p) ==
  /\ pc[p] = "start" /\ CmdOf[p].name = "init"
  /\ IF logfile THEN Terminate(p, 0, FALSE)
                ELSE pc' = [pc EXCEPT ![p] = "mklog"] /\ UNCHANGED <<outc, acks>>
  /\ Note(p, "step")
  /\ UNCHANGED <<scn, inodes, cur, tmp, lock, lockfile, logfile, sec, snap, pend, rd, now, crashes, torn>>
InitCreate(p) ==
  /\ pc[p] = "mklog"
  /\ logfile' = TRUE
  /\ inodes' = IF "D17" \in Dev THEN [inodes EXCEPT ![cur] = Content(<<>>, "clean")] ELSE inodes
  /\ Terminate(p, 0, FALSE)
  /\ Note(p, "step")
  /\ UNCHANGED <<scn, cur, tmp, lock, lockfile, sec, snap, pend, rd, now, crashes, torn>>

Begin(p) ==
  /\ pc[p] = "start" /\ CmdOf[p].name # "init"
  /\ IF PreValid(CmdOf[p])
       THEN pc' = [pc EXCEPT ![p] = IF lockfile THEN "flock" ELSE "mklock"] /\ UNCHANGED <<scn, outc, acks>>
       ELSE Terminate(p, 1, FALSE)
  /\ Note(p, "step")
  /\ UNCHANGED <<scn, inodes, cur, tmp, lock, lockfile, logfile, sec, snap, pend, rd, now, crashes, torn>>

\* the lock file was missing when the process looked: create it (an existing
\* file is truncated, not replaced: every process ends up flocking one inode)
MkLock(p) ==
  /\ pc[p] = "mklock"
  /\ lockfile' = TRUE
  /\ pc' = [pc EXCEPT ![p] = "flock"]
  /\ Note(p, "step")
  /\ UNCHANGED <<scn, inodes, cur, tmp, lock, logfile, sec, snap, pend, outc, rd, now, crashes, torn, acks>>

TryLock(p) ==
  /\ pc[p] = "flock"
  /\ IF lock = ""
       THEN lock' = p /\ pc' = [pc EXCEPT ![p] = "acquired"] /\ UNCHANGED <<scn, outc, acks>>
       ELSE lock' = lock /\ Terminate(p, 1, TRUE)
  /\ Note(p, "step")
  /\ UNCHANGED <<scn, inodes, cur, tmp, sec, snap, pend, rd, now, crashes, torn, lockfile, logfile>>

ReadLog(p) ==
  /\ pc[p] = "acquired"
  /\ snap' = [snap EXCEPT ![p] = [log |-> ReadEvents(File), bad |-> HasGarbage(File)]]
  /\ pc' = [pc EXCEPT ![p] = "scanned"]
  /\ Note(p, "step")
  /\ UNCHANGED <<scn, inodes, cur, tmp, lock, lockfile, logfile, sec, pend, outc, rd, now, crashes, torn, acks>>

Decide(p) ==
  /\ pc[p] = "scanned"
  /\ LET c == CmdOf[p]
         created == outc[p].reply.id
         d == DecideSecOf(c, sec[p], snap[p].log, now, created)
         \* how the events reach the file: one write(2) per event (D9), or one
         \* write(2) for the whole batch; after a torn tail the log is rewritten
         \* through the atomic-replace path instead (unless D8)
         batches == IF "D9" \in Dev THEN [k \in 1..Len(d.events) |-> <<d.events[k]>>]
                    ELSE IF d.events = <<>> THEN <<>> ELSE <<d.events>>
         repair == "D8" \notin Dev /\ File.tail # "clean" /\ d.events # <<>>
     IN
     /\ now' = now + 4
     /\ IF snap[p].bad \/ ~d.ok
          THEN /\ pend' = [pend EXCEPT ![p] = <<>>]
               /\ pc' = [pc EXCEPT ![p] = "releasing"]
               /\ outc' = [outc EXCEPT ![p] = [@ EXCEPT !.exit = 1]]
          ELSE /\ outc' = [outc EXCEPT ![p] = [@ EXCEPT !.reply =
                              IF d.reply.id # "" \/ d.reply.status # "" \/ d.reply.kind # "" THEN d.reply
                              ELSE IF SecsOf(c)[sec[p]].k = "create" THEN [Reply0 EXCEPT !.id = NewId(c, 1)]
                              ELSE @]]
               /\ IF d.rewrite \/ repair
                    THEN /\ pend' = [pend EXCEPT ![p] = <<IF d.rewrite THEN d.newlog ELSE snap[p].log \o d.events>>]
                         /\ pc' = [pc EXCEPT ![p] = "tmp"]
                    ELSE /\ pend' = [pend EXCEPT ![p] = batches]
                         /\ pc' = [pc EXCEPT ![p] = IF batches = <<>> THEN "releasing" ELSE "append"]
  /\ Note(p, "step")
  /\ UNCHANGED <<scn, inodes, cur, tmp, lock, lockfile, logfile, sec, snap, rd, crashes, torn, acks>>

\* one write(2): the whole batch arrives (death inside it is Crash)
AppendLine(p) ==
  /\ pc[p] = "append"
  /\ LET f == File
         batch == Head(pend[p])
         glue == f.tail # "clean" /\ "D8" \in Dev
         lines == IF glue THEN <<Garbage>> \o Tail(batch) ELSE batch
         kept == IF f.tail = "full" /\ glue THEN SubSeq(f.lines, 1, Len(f.lines) - 1) ELSE f.lines
     IN inodes' = [inodes EXCEPT ![cur] = Content(kept \o lines, "clean")]
  /\ logfile' = TRUE
  /\ pend' = [pend EXCEPT ![p] = Tail(@)]
  /\ pc' = [pc EXCEPT ![p] = IF Len(pend[p]) = 1 THEN "releasing" ELSE "append"]
  /\ Note(p, "step")
  /\ UNCHANGED <<scn, cur, tmp, lock, lockfile, sec, snap, outc, rd, now, crashes, torn, acks>>

WriteTmp(p) ==
  /\ pc[p] = "tmp"
  /\ tmp' = Content(Head(pend[p]), "clean")
  /\ pc' = [pc EXCEPT ![p] = "rename"]
  /\ Note(p, "step")
  /\ UNCHANGED <<scn, inodes, cur, lock, lockfile, logfile, sec, snap, pend, outc, rd, now, crashes, torn, acks>>

Rename(p) ==
  /\ pc[p] = "rename"
  /\ LET n == Len(inodes) + 1 IN
       /\ inodes' = Append(inodes, tmp)
       /\ cur' = n
  /\ tmp' = <<>>
  /\ logfile' = TRUE
  /\ pend' = [pend EXCEPT ![p] = <<>>]
  /\ pc' = [pc EXCEPT ![p] = "renamed"]
  /\ Note(p, "step")
  /\ UNCHANGED <<scn, lock, lockfile, sec, snap, outc, rd, now, crashes, torn, acks>>

\* between the rename and the end of the critical section (directory sync, return)
AfterRename(p) ==
  /\ pc[p] = "renamed"
  /\ pc' = [pc EXCEPT ![p] = "releasing"]
  /\ Note(p, "step")
  /\ UNCHANGED <<scn, inodes, cur, tmp, lock, lockfile, logfile, sec, snap, pend, outc, rd, now, crashes, torn, acks>>

Unlock(p) ==
  /\ pc[p] = "releasing"
  /\ lock' = ""
  /\ pc' = [pc EXCEPT ![p] = "released"]
  /\ Note(p, "step")
  /\ UNCHANGED <<scn, inodes, cur, tmp, sec, snap, pend, outc, rd, now, crashes, torn, acks, lockfile, logfile>>

NextSection(p) ==
  /\ pc[p] = "released"
  /\ IF outc[p].exit = 1
       THEN Terminate(p, 1, FALSE) /\ UNCHANGED sec
       ELSE IF sec[p] < Len(SecsOf(CmdOf[p]))
         THEN /\ sec' = [sec EXCEPT ![p] = @ + 1]
              /\ pc' = [pc EXCEPT ![p] = "flock"]
              /\ UNCHANGED <<scn, outc, acks>>
         ELSE Terminate(p, 0, FALSE) /\ UNCHANGED sec
  /\ Note(p, "step")
  /\ UNCHANGED <<scn, inodes, cur, tmp, lock, lockfile, logfile, snap, pend, rd, now, crashes, torn>>

\* process death at the current parking point; `how` says what a death inside
\* write(2) left behind
Crash(p, how) ==
  /\ crashes < MaxCrashes
  /\ pc[p] \notin {"exit", "start"}
  /\ how \in (IF pc[p] = "append" THEN {"between", "partial", "full"}
              ELSE IF pc[p] = "tmp" THEN {"between", "partial"} ELSE {"between"})
  /\ crashes' = crashes + 1
  /\ torn' = (torn \/ how # "between")
  /\ lock' = IF lock = p THEN "" ELSE lock
  /\ IF pc[p] = "append" /\ how # "between"
       THEN LET f == File
                batch == Head(pend[p])
                glued == f.tail # "clean" /\ "D8" \in Dev
            IN \E k \in 0..(Len(batch) - 1) :      \* k whole lines of the batch arrived before death
                 inodes' = [inodes EXCEPT ![cur] =
                   IF glued THEN f     \* (a fragment glued onto a fragment: still one torn tail)
                   ELSE IF how = "partial" THEN Content(f.lines \o SubSeq(batch, 1, k), "partial")
                   ELSE Content(f.lines \o SubSeq(batch, 1, k + 1), "full")]
       ELSE inodes' = inodes
  /\ tmp' = IF pc[p] = "tmp" /\ how = "partial" THEN Content(<<>>, "partial") ELSE tmp
  /\ pc' = [pc EXCEPT ![p] = "exit"]
  /\ outc' = [outc EXCEPT ![p] = [exit |-> 137, busy |-> FALSE, reply |-> outc[p].reply]]
  /\ Note(p, "kill-" \o how)
  /\ UNCHANGED <<scn, cur, sec, snap, pend, rd, now, acks, lockfile, logfile>>

(***************************************************************************)
(* Readers: no lock.                                                       *)
(***************************************************************************)
\* the reader chooses the log file (plans.jsonl, else the legacy events.jsonl) ...
RPath(r) ==
  /\ pc[r] = "start"
  /\ pc' = [pc EXCEPT ![r] = "pathed"]
  /\ Note(r, "step")
  /\ UNCHANGED <<scn, inodes, cur, tmp, lock, lockfile, logfile, sec, snap, pend, outc, rd, now, crashes, torn, acks>>

\* ... and opens it
ROpen(r) ==
  /\ pc[r] = "pathed"
  /\ rd' = [rd EXCEPT ![r] = [@ EXCEPT !.inode = cur]]
  /\ pc' = [pc EXCEPT ![r] = "opened"]
  /\ Note(r, "step")
  /\ UNCHANGED <<scn, inodes, cur, tmp, lock, lockfile, logfile, sec, snap, pend, outc, now, crashes, torn, acks>>

RProbe(r) ==
  /\ pc[r] = "opened"
  /\ rd' = [rd EXCEPT ![r] = [@ EXCEPT !.nl = inodes[rd[r].inode].tail = "clean"]]
  /\ pc' = [pc EXCEPT ![r] = "probed"]
  /\ Note(r, "step")
  /\ UNCHANGED <<scn, inodes, cur, tmp, lock, lockfile, logfile, sec, snap, pend, outc, now, crashes, torn, acks>>

RScan(r) ==
  /\ pc[r] = "probed"
  /\ LET f == inodes[rd[r].inode]
         lastBad == f.tail = "partial"
         err == HasGarbage(f) \/ (lastBad /\ (IF "D18" \in Dev THEN rd[r].nl ELSE FALSE))
     IN rd' = [rd EXCEPT ![r] = [@ EXCEPT !.seen = f.lines, !.err = err]]
  /\ pc' = [pc EXCEPT ![r] = "exit"]
  /\ outc' = [outc EXCEPT ![r] = [exit |-> 0, busy |-> FALSE, reply |-> Reply0]]
  /\ Note(r, "step")
  /\ UNCHANGED <<scn, inodes, cur, tmp, lock, lockfile, logfile, sec, snap, pend, now, crashes, torn, acks>>

WStep(p) == InitBegin(p) \/ InitCreate(p) \/ Begin(p) \/ MkLock(p) \/ TryLock(p) \/ ReadLog(p) \/ Decide(p) \/ AppendLine(p) \/ WriteTmp(p)
            \/ Rename(p) \/ AfterRename(p) \/ Unlock(p) \/ NextSection(p)
RStep(r) == RPath(r) \/ ROpen(r) \/ RProbe(r) \/ RScan(r)

Init ==
  /\ scn \in Scenarios
  /\ inodes = <<Content(InitLog, "clean")>> /\ cur = 1 /\ tmp = <<>> /\ lock = "" /\ lockfile = ~scn.nolock /\ logfile = ~scn.nolog
  /\ pc = [p \in Procs \cup Readers |-> "start"]
  /\ sec = [p \in Procs |-> 1]
  /\ snap = [p \in Procs |-> [log |-> <<>>, bad |-> FALSE]]
  /\ pend = [p \in Procs |-> <<>>]
  /\ outc = [p \in Procs \cup Readers |-> [exit |-> -1, busy |-> FALSE, reply |-> Reply0]]
  /\ rd = [r \in Readers |-> [inode |-> 0, nl |-> TRUE, seen |-> <<>>, err |-> FALSE]]
  /\ now = Len(InitLog) + 10 /\ crashes = 0 /\ torn = FALSE /\ acks = <<>> /\ sched = <<>>

Next == \/ \E p \in Procs : WStep(p)
        \/ \E p \in Procs : \E how \in {"between", "partial", "full"} : Crash(p, how)
        \/ \E r \in Readers : RStep(r)
Spec == Init /\ [][Next]_vars

(***************************************************************************)
(* Properties of the design.                                               *)
(***************************************************************************)
Quiescent == \A p \in Procs \cup Readers : pc[p] = "exit"
Survivors == {p \in Procs : outc[p].exit = 0}

\* C02: at quiescence the file is what the commands that reported success
\* produce when run one at a time in SOME order (compared modulo timestamps)
ZeroTsLog(l) == [k \in 1..Len(l) |-> IF "ts" \in DOMAIN l[k] THEN [l[k] EXCEPT !.ts = 0] ELSE l[k]]
RECURSIVE SerialRun(_, _, _)
SerialRun(l, t, order) ==
  IF order = <<>> THEN l
  ELSE LET r == CHOOSE x \in Outcomes(l, t, CmdOf[Head(order)]) : TRUE
       IN IF r.exit # 0 THEN <<Garbage>> ELSE SerialRun(r.log, t + 10, Tail(order))
Orders(S) == {o \in [1..Cardinality(S) -> S] : \A i, j \in 1..Cardinality(S) : i # j => o[i] # o[j]}
Serializable ==
  (Quiescent /\ crashes = 0) =>
     \E o \in Orders(Survivors) :
        NoTime(View(Replay(SerialRun(InitLog, 100, o)))) = NoTime(View(Replay(ReadEvents(File))))

\* C02: whole lines only, no glued bytes; C03: never bricked
NeverBricked == ~HasGarbage(File)
\* C03: what every acknowledged command wrote is still there
\* C04: a killed multi-event command is all-or-nothing (checked at quiescence)
AllOrNothing ==
  (Quiescent /\ crashes > 0 /\ ~torn /\ Cardinality(Procs) = 1) =>
     LET p == CHOOSE x \in Procs : TRUE
         after == CHOOSE x \in Outcomes(InitLog, 100, CmdOf[p]) : TRUE
         got == NoTime(View(Replay(ReadEvents(File))))
     IN HasGarbage(File) \/ got = NoTime(View(Replay(InitLog))) \/ got = NoTime(View(Replay(after.log)))
\* C13: a reader never fails and sees a whole number of events
ReaderOK == \A r \in Readers : pc[r] = "exit" => ~rd[r].err
NeverWaits == TRUE   \* structural: TryLock has no waiting state

(***************************************************************************)
(* VIEW and emission.                                                      *)
(***************************************************************************)
PView == <<scn.name, inodes, cur, tmp, lock, lockfile, logfile, pc, sec, snap, pend, outc, rd, crashes, torn>>

Enabled(p) == IF p \in Readers THEN pc[p] # "exit" ELSE pc[p] # "exit"
\* where inside the line a write(2) is cut short is below the model's grain (Crash(p,
\* "partial") leaves "a fragment"); the driver realises it at each of these places:
\* half way (inside a multi-byte character if there is one), after the first byte,
\* right after the last-but-one closing brace of the first line (what is left looks
\* like a complete object at its end), right after a quote, and - for a batch -
\* inside its second line
CutPoints == {"half", "one", "brace", "quote", "line2"}
KillsAt(p) == IF p \in Procs /\ crashes < MaxCrashes /\ pc[p] \notin {"exit", "start"}
                THEN (IF pc[p] = "append" THEN {"kill-between", "kill-full"} \cup {"kill-partial@" \o c : c \in CutPoints}
                      ELSE IF pc[p] = "tmp" THEN {"kill-between", "kill-partial"} ELSE {"kill-between"})
                ELSE {}
EmitLine == ToJson([scn |-> scn.name, sched |-> sched,
                    next  |-> {<<p, "step">> : p \in {q \in Procs \cup Readers : Enabled(q)}}
                              \cup UNION {{<<p, k>> : k \in KillsAt(p)} : p \in Procs}])
EmitInv == IF Emit = "states" THEN PrintT("@ST " \o EmitLine) ELSE TRUE
=============================================================================
