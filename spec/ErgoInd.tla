------------------------------- MODULE ErgoInd -------------------------------
(***************************************************************************)
(* The claim rule as an INDUCTIVE invariant (C06), for Apalache: per task  *)
(* a state and a claimant; one action = one accepted request.  Apalache    *)
(* proves  Init => IndInv  and  IndInv /\ Next => IndInv'  - for ANY number *)
(* of steps (the depth bound of the TLC runs disappears; the numbers of    *)
(* tasks and agents stay bounded).                                         *)
(***************************************************************************)
EXTENDS ErgoIndOps

CONSTANTS
  \* @type: Set(Str);
  Tasks,
  \* @type: Set(Str);
  AgentNames

VARIABLES
  \* @type: Str -> Str;
  st,
  \* @type: Str -> Str;
  cl

Init == /\ st = [t \in Tasks |-> "todo"]
        /\ cl = [t \in Tasks |-> ""]

Request(t, s, c, ag) ==
  /\ Accepts(st[t], cl[t], s, c, ag)
  /\ st' = [st EXCEPT ![t] = NewState(st[t], cl[t], s, c, ag)]
  /\ cl' = [cl EXCEPT ![t] = NewClaim(st[t], cl[t], s, c, ag)]

Next == \E t \in Tasks : \E s \in StatesI \cup {NoneI} : \E c \in AgentNames \cup {"", NoneI} :
          \E ag \in AgentNames \cup {""} : Request(t, s, c, ag)

\* the inductive invariant: types + the claim rule of every task
IndInv == /\ st \in [Tasks -> StatesI]
          /\ cl \in [Tasks -> AgentNames \cup {""}]
          /\ \A t \in Tasks : RuleOK(st[t], cl[t])
IndInit == IndInv
=============================================================================
