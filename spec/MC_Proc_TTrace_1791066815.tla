---- MODULE MC_Proc_TTrace_1791066815 ----
EXTENDS Sequences, TLCExt, Toolbox, Naturals, TLC, MC_Proc

_expression ==
    LET MC_Proc_TEExpression == INSTANCE MC_Proc_TEExpression
    IN MC_Proc_TEExpression!expression
----

_trace ==
    LET MC_Proc_TETrace == INSTANCE MC_Proc_TETrace
    IN MC_Proc_TETrace!trace
----

_inv ==
    ~(
        TLCGet("level") = Len(_TETrace)
        /\
        torn = (FALSE)
        /\
        outc = ([p1 |-> [reply |-> [id |-> "", state |-> "", claim |-> "", epic |-> "", ids |-> <<>>, status |-> "", kind |-> "", edges |-> {}, pruned |-> {}], exit |-> -1, busy |-> FALSE], p2 |-> [reply |-> [id |-> "", state |-> "", claim |-> "", epic |-> "", ids |-> <<>>, status |-> "", kind |-> "", edges |-> {}, pruned |-> {}], exit |-> -1, busy |-> FALSE]])
        /\
        cur = (1)
        /\
        inodes = (<<[lines |-> <<[id |-> "i1", state |-> "todo", title |-> "T1", body |-> "", epic |-> "", type |-> "new_task", ts |-> 1], [id |-> "i2", state |-> "todo", title |-> "T2", body |-> "", epic |-> "", type |-> "new_task", ts |-> 2]>>, tail |-> "clean"]>>)
        /\
        logfile = ()
        /\
        acks = (<<>>)
        /\
        crashes = (0)
        /\
        sec = ([p1 |-> 1, p2 |-> 1])
        /\
        lockfile = (TRUE)
        /\
        rd = (<<>>)
        /\
        pc = ([p1 |-> "flock", p2 |-> "start"])
        /\
        sched = (<<<<"p1", "step">>, <<"p1", "step">>>>)
        /\
        tmp = (<<>>)
        /\
        now = (12)
        /\
        lock = ("")
        /\
        scn = ([name |-> "claimid-claim-nolock", init |-> <<[id |-> "i1", state |-> "todo", title |-> "T1", body |-> "", epic |-> "", type |-> "new_task", ts |-> 1], [id |-> "i2", state |-> "todo", title |-> "T2", body |-> "", epic |-> "", type |-> "new_task", ts |-> 2]>>, cmds |-> [p1 |-> [name |-> "claim_id", id |-> "i1", agent |-> "a1", mode |-> "json"], p2 |-> [name |-> "claim", agent |-> "a2", mode |-> "json", epic |-> ""]], readers |-> {}, nolock |-> TRUE, legacy |-> FALSE, rkind |-> "list", rid |-> "", nolog |-> FALSE])
        /\
        pend = ([p1 |-> <<>>, p2 |-> <<>>])
        /\
        snap = ([p1 |-> [log |-> <<>>, bad |-> FALSE], p2 |-> [log |-> <<>>, bad |-> FALSE]])
    )
----

_init ==
    /\ lock = _TETrace[1].lock
    /\ acks = _TETrace[1].acks
    /\ inodes = _TETrace[1].inodes
    /\ scn = _TETrace[1].scn
    /\ lockfile = _TETrace[1].lockfile
    /\ sec = _TETrace[1].sec
    /\ pend = _TETrace[1].pend
    /\ torn = _TETrace[1].torn
    /\ now = _TETrace[1].now
    /\ crashes = _TETrace[1].crashes
    /\ snap = _TETrace[1].snap
    /\ logfile = _TETrace[1].logfile
    /\ pc = _TETrace[1].pc
    /\ sched = _TETrace[1].sched
    /\ rd = _TETrace[1].rd
    /\ outc = _TETrace[1].outc
    /\ tmp = _TETrace[1].tmp
    /\ cur = _TETrace[1].cur
----

_next ==
    /\ \E i,j \in DOMAIN _TETrace:
        /\ \/ /\ j = i + 1
              /\ i = TLCGet("level")
        /\ lock  = _TETrace[i].lock
        /\ lock' = _TETrace[j].lock
        /\ acks  = _TETrace[i].acks
        /\ acks' = _TETrace[j].acks
        /\ inodes  = _TETrace[i].inodes
        /\ inodes' = _TETrace[j].inodes
        /\ scn  = _TETrace[i].scn
        /\ scn' = _TETrace[j].scn
        /\ lockfile  = _TETrace[i].lockfile
        /\ lockfile' = _TETrace[j].lockfile
        /\ sec  = _TETrace[i].sec
        /\ sec' = _TETrace[j].sec
        /\ pend  = _TETrace[i].pend
        /\ pend' = _TETrace[j].pend
        /\ torn  = _TETrace[i].torn
        /\ torn' = _TETrace[j].torn
        /\ now  = _TETrace[i].now
        /\ now' = _TETrace[j].now
        /\ crashes  = _TETrace[i].crashes
        /\ crashes' = _TETrace[j].crashes
        /\ snap  = _TETrace[i].snap
        /\ snap' = _TETrace[j].snap
        /\ logfile  = _TETrace[i].logfile
        /\ logfile' = _TETrace[j].logfile
        /\ pc  = _TETrace[i].pc
        /\ pc' = _TETrace[j].pc
        /\ sched  = _TETrace[i].sched
        /\ sched' = _TETrace[j].sched
        /\ rd  = _TETrace[i].rd
        /\ rd' = _TETrace[j].rd
        /\ outc  = _TETrace[i].outc
        /\ outc' = _TETrace[j].outc
        /\ tmp  = _TETrace[i].tmp
        /\ tmp' = _TETrace[j].tmp
        /\ cur  = _TETrace[i].cur
        /\ cur' = _TETrace[j].cur

\* Uncomment the ASSUME below to write the states of the error trace
\* to the given file in Json format. Note that you can pass any tuple
\* to `JsonSerialize`. For example, a sub-sequence of _TETrace.
    \* ASSUME
    \*     LET J == INSTANCE Json
    \*         IN J!JsonSerialize("MC_Proc_TTrace_1791066815.json", _TETrace)

=============================================================================

 Note that you can extract this module `MC_Proc_TEExpression`
  to a dedicated file to reuse `expression` (the module in the 
  dedicated `MC_Proc_TEExpression.tla` file takes precedence 
  over the module `MC_Proc_TEExpression` below).

---- MODULE MC_Proc_TEExpression ----
EXTENDS Sequences, TLCExt, Toolbox, Naturals, TLC, MC_Proc

expression == 
    [
        \* To hide variables of the `MC_Proc` spec from the error trace,
        \* remove the variables below.  The trace will be written in the order
        \* of the fields of this record.
        lock |-> lock
        ,acks |-> acks
        ,inodes |-> inodes
        ,scn |-> scn
        ,lockfile |-> lockfile
        ,sec |-> sec
        ,pend |-> pend
        ,torn |-> torn
        ,now |-> now
        ,crashes |-> crashes
        ,snap |-> snap
        ,logfile |-> logfile
        ,pc |-> pc
        ,sched |-> sched
        ,rd |-> rd
        ,outc |-> outc
        ,tmp |-> tmp
        ,cur |-> cur
        
        \* Put additional constant-, state-, and action-level expressions here:
        \* ,_stateNumber |-> _TEPosition
        \* ,_lockUnchanged |-> lock = lock'
        
        \* Format the `lock` variable as Json value.
        \* ,_lockJson |->
        \*     LET J == INSTANCE Json
        \*     IN J!ToJson(lock)
        
        \* Lastly, you may build expressions over arbitrary sets of states by
        \* leveraging the _TETrace operator.  For example, this is how to
        \* count the number of times a spec variable changed up to the current
        \* state in the trace.
        \* ,_lockModCount |->
        \*     LET F[s \in DOMAIN _TETrace] ==
        \*         IF s = 1 THEN 0
        \*         ELSE IF _TETrace[s].lock # _TETrace[s-1].lock
        \*             THEN 1 + F[s-1] ELSE F[s-1]
        \*     IN F[_TEPosition - 1]
    ]

=============================================================================



Parsing and semantic processing can take forever if the trace below is long.
 In this case, it is advised to uncomment the module below to deserialize the
 trace from a generated binary file.

\*
\*---- MODULE MC_Proc_TETrace ----
\*EXTENDS IOUtils, TLC, MC_Proc
\*
\*trace == IODeserialize("MC_Proc_TTrace_1791066815.bin", TRUE)
\*
\*=============================================================================
\*

---- MODULE MC_Proc_TETrace ----
EXTENDS TLC, MC_Proc

trace == 
    <<
    ([torn |-> FALSE,outc |-> [p1 |-> [reply |-> [id |-> "", state |-> "", claim |-> "", epic |-> "", ids |-> <<>>, status |-> "", kind |-> "", edges |-> {}, pruned |-> {}], exit |-> -1, busy |-> FALSE], p2 |-> [reply |-> [id |-> "", state |-> "", claim |-> "", epic |-> "", ids |-> <<>>, status |-> "", kind |-> "", edges |-> {}, pruned |-> {}], exit |-> -1, busy |-> FALSE]],cur |-> 1,inodes |-> <<[lines |-> <<[id |-> "i1", state |-> "todo", title |-> "T1", body |-> "", epic |-> "", type |-> "new_task", ts |-> 1], [id |-> "i2", state |-> "todo", title |-> "T2", body |-> "", epic |-> "", type |-> "new_task", ts |-> 2]>>, tail |-> "clean"]>>,logfile |-> TRUE,acks |-> <<>>,crashes |-> 0,sec |-> [p1 |-> 1, p2 |-> 1],lockfile |-> FALSE,rd |-> <<>>,pc |-> [p1 |-> "start", p2 |-> "start"],sched |-> <<>>,tmp |-> <<>>,now |-> 12,lock |-> "",scn |-> [name |-> "claimid-claim-nolock", init |-> <<[id |-> "i1", state |-> "todo", title |-> "T1", body |-> "", epic |-> "", type |-> "new_task", ts |-> 1], [id |-> "i2", state |-> "todo", title |-> "T2", body |-> "", epic |-> "", type |-> "new_task", ts |-> 2]>>, cmds |-> [p1 |-> [name |-> "claim_id", id |-> "i1", agent |-> "a1", mode |-> "json"], p2 |-> [name |-> "claim", agent |-> "a2", mode |-> "json", epic |-> ""]], readers |-> {}, nolock |-> TRUE, legacy |-> FALSE, rkind |-> "list", rid |-> "", nolog |-> FALSE],pend |-> [p1 |-> <<>>, p2 |-> <<>>],snap |-> [p1 |-> [log |-> <<>>, bad |-> FALSE], p2 |-> [log |-> <<>>, bad |-> FALSE]]]),
    ([torn |-> FALSE,outc |-> [p1 |-> [reply |-> [id |-> "", state |-> "", claim |-> "", epic |-> "", ids |-> <<>>, status |-> "", kind |-> "", edges |-> {}, pruned |-> {}], exit |-> -1, busy |-> FALSE], p2 |-> [reply |-> [id |-> "", state |-> "", claim |-> "", epic |-> "", ids |-> <<>>, status |-> "", kind |-> "", edges |-> {}, pruned |-> {}], exit |-> -1, busy |-> FALSE]],cur |-> 1,inodes |-> <<[lines |-> <<[id |-> "i1", state |-> "todo", title |-> "T1", body |-> "", epic |-> "", type |-> "new_task", ts |-> 1], [id |-> "i2", state |-> "todo", title |-> "T2", body |-> "", epic |-> "", type |-> "new_task", ts |-> 2]>>, tail |-> "clean"]>>,logfile |-> TRUE,acks |-> <<>>,crashes |-> 0,sec |-> [p1 |-> 1, p2 |-> 1],lockfile |-> FALSE,rd |-> <<>>,pc |-> [p1 |-> "mklock", p2 |-> "start"],sched |-> <<<<"p1", "step">>>>,tmp |-> <<>>,now |-> 12,lock |-> "",scn |-> [name |-> "claimid-claim-nolock", init |-> <<[id |-> "i1", state |-> "todo", title |-> "T1", body |-> "", epic |-> "", type |-> "new_task", ts |-> 1], [id |-> "i2", state |-> "todo", title |-> "T2", body |-> "", epic |-> "", type |-> "new_task", ts |-> 2]>>, cmds |-> [p1 |-> [name |-> "claim_id", id |-> "i1", agent |-> "a1", mode |-> "json"], p2 |-> [name |-> "claim", agent |-> "a2", mode |-> "json", epic |-> ""]], readers |-> {}, nolock |-> TRUE, legacy |-> FALSE, rkind |-> "list", rid |-> "", nolog |-> FALSE],pend |-> [p1 |-> <<>>, p2 |-> <<>>],snap |-> [p1 |-> [log |-> <<>>, bad |-> FALSE], p2 |-> [log |-> <<>>, bad |-> FALSE]]]),
    ([torn |-> FALSE,outc |-> [p1 |-> [reply |-> [id |-> "", state |-> "", claim |-> "", epic |-> "", ids |-> <<>>, status |-> "", kind |-> "", edges |-> {}, pruned |-> {}], exit |-> -1, busy |-> FALSE], p2 |-> [reply |-> [id |-> "", state |-> "", claim |-> "", epic |-> "", ids |-> <<>>, status |-> "", kind |-> "", edges |-> {}, pruned |-> {}], exit |-> -1, busy |-> FALSE]],cur |-> 1,inodes |-> <<[lines |-> <<[id |-> "i1", state |-> "todo", title |-> "T1", body |-> "", epic |-> "", type |-> "new_task", ts |-> 1], [id |-> "i2", state |-> "todo", title |-> "T2", body |-> "", epic |-> "", type |-> "new_task", ts |-> 2]>>, tail |-> "clean"]>>,logfile |-> ,acks |-> <<>>,crashes |-> 0,sec |-> [p1 |-> 1, p2 |-> 1],lockfile |-> TRUE,rd |-> <<>>,pc |-> [p1 |-> "flock", p2 |-> "start"],sched |-> <<<<"p1", "step">>, <<"p1", "step">>>>,tmp |-> <<>>,now |-> 12,lock |-> "",scn |-> [name |-> "claimid-claim-nolock", init |-> <<[id |-> "i1", state |-> "todo", title |-> "T1", body |-> "", epic |-> "", type |-> "new_task", ts |-> 1], [id |-> "i2", state |-> "todo", title |-> "T2", body |-> "", epic |-> "", type |-> "new_task", ts |-> 2]>>, cmds |-> [p1 |-> [name |-> "claim_id", id |-> "i1", agent |-> "a1", mode |-> "json"], p2 |-> [name |-> "claim", agent |-> "a2", mode |-> "json", epic |-> ""]], readers |-> {}, nolock |-> TRUE, legacy |-> FALSE, rkind |-> "list", rid |-> "", nolog |-> FALSE],pend |-> [p1 |-> <<>>, p2 |-> <<>>],snap |-> [p1 |-> [log |-> <<>>, bad |-> FALSE], p2 |-> [log |-> <<>>, bad |-> FALSE]]])
    >>
----


=============================================================================

---- CONFIG MC_Proc_TTrace_1791066815 ----
CONSTANTS
    Dev = { }
    Scenarios <- PairScenarios
    MaxCrashes = 0
    Emit = "none"

INVARIANT
    _inv

CHECK_DEADLOCK
    \* CHECK_DEADLOCK off because of PROPERTY or INVARIANT above.
    FALSE

INIT
    _init

NEXT
    _next

CONSTANT
    _TETrace <- _trace

ALIAS
    _expression
=============================================================================
\* Generated on Sat Oct 03 22:33:37 UTC 2026