CONSTANTS
  Tasks <- MCTasks
  AgentNames <- MCAgents
  Weak = FALSE
INIT Init
NEXT Next
INVARIANT IndInv
