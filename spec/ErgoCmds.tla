------------------------------ MODULE ErgoCmds ------------------------------
(***************************************************************************)
(* CLI commands as PROGRAMS OVER CRITICAL SECTIONS, on the log.            *)
(*                                                                         *)
(*   Run(log, now, c) = [exit, log, now, reply]                            *)
(*                                                                         *)
(* is the sequential meaning of one invocation: input validation, then the *)
(* command's sections in order, each deciding against Replay of the log as *)
(* the previous section left it.  In the ideal instantiation a command is  *)
(* all-or-nothing; with D5/D6/D7 switched on it is what the code does: a   *)
(* later section that fails leaves the earlier ones committed.             *)
(*                                                                         *)
(* Command records (the harness writes exactly these as JSON):             *)
(*   new_task  mode title body epic state claim rsum rpath rpathok agent   *)
(*             newids                                                      *)
(*   new_epic  mode title body newids                                      *)
(*   set       mode id title body epic state claim rsum rpath rpathok agent*)
(*   claim_id  id agent                                                    *)
(*   claim     epic agent                                                  *)
(*   sequence  ids          sequence_rm  a b                               *)
(*   prune     yes          compact      plan doc newids                   *)
(* mode \in {"json","flags","bodystdin"}; absent fields are ABSENT.        *)
(***************************************************************************)
EXTENDS ErgoOps

\* the k-th fresh id of a command (observed commands that created nothing carry none)
NewId(c, k) == IF k <= Len(c.newids) THEN c.newids[k] ELSE "new" \o ToString(k)

Reply0 == [kind |-> "", id |-> "", state |-> "", claim |-> "", epic |-> "",
           ids |-> <<>>, edges |-> {}, pruned |-> {}, status |-> ""]

Res(exit, log, now, reply) == [exit |-> exit, log |-> log, now |-> now, reply |-> reply]
Rejected(log, now) == Res(1, log, now, Reply0)

\* flags and --body-stdin cannot express "" for a field: "" means not given
Fld(c, x) == IF c.mode # "json" /\ x = "" THEN ABSENT ELSE x

HasResult(c) == c.rsum # ABSENT \/ c.rpath # ABSENT
ResultPairOK(c) == (c.rsum # ABSENT) <=> (c.rpath # ABSENT)

UpdOf(c) == [title |-> IF c.name = "set" THEN Fld(c, IF c.mode = "json" THEN c.title ELSE Trim(c.title)) ELSE ABSENT,
             body  |-> IF c.name = "set" THEN Fld(c, c.body) ELSE ABSENT,
             epic  |-> IF c.name = "set" THEN Fld(c, c.epic) ELSE ABSENT,
             claim |-> Fld(c, c.claim),
             state |-> Fld(c, c.state)]
EmptyUpd(u) == u = NoUpd

\* json_input.go validate(): what is refused before any section runs (JSON mode)
JsonFieldsOK(c, isNew) ==
  /\ (isNew => (c.title # ABSENT /\ ~Blank(c.title)))
  /\ (~isNew /\ c.title # ABSENT => ~Blank(c.title))
  /\ (c.body # ABSENT => ~Blank(c.body))
  /\ (c.state # ABSENT => c.state \in States)
  /\ ~(c.state \in {"doing", "error"} /\ c.claim = "")
  /\ ResultPairOK(c)

(***************************************************************************)
(* Sections, threaded through the log.                                     *)
(***************************************************************************)
SecResult(log, c, id, ts) == DecideResult(Replay(log), id, c.rsum, c.rpath, c.rpathok, ts)
SecSet(log, u, id, agent, ts) == DecideSet(Replay(log), id, u, agent, ts)

\* the follow-up sections of `new task` / the sections of `set`:
\* [AttachResult] ; [ApplySet].  Returns [ok, log, n] (n = sections that ran)
FollowUps(log, now, c, id, u) ==
  LET r  == IF HasResult(c) THEN SecResult(log, c, id, now + 1) ELSE Ok(<<>>, <<>>)
      l1 == log \o r.events
      s  == IF ~r.ok \/ EmptyUpd(u) THEN Ok(<<>>, <<>>) ELSE SecSet(l1, u, id, c.agent, now + 2)
  IN IF ~r.ok THEN [ok |-> FALSE, log |-> log, partial |-> log]
     ELSE IF ~s.ok THEN [ok |-> FALSE, log |-> log, partial |-> l1]
     ELSE [ok |-> TRUE, log |-> l1 \o s.events, partial |-> l1 \o s.events]

RunNewTask(log, now, c) ==
  LET json   == c.mode = "json"
      title  == IF json THEN c.title ELSE Trim(c.title)
      body   == IF Fld(c, c.body) = ABSENT THEN "" ELSE c.body
      epic   == IF Fld(c, c.epic) = ABSENT THEN "" ELSE c.epic
      u      == UpdOf(c)
      valid  == IF json THEN JsonFieldsOK(c, TRUE) ELSE (c.title # ABSENT /\ ~Blank(c.title))
      id     == NewId(c, 1)
      d      == DecideCreate(Replay(log), "task", epic, title, body, id, now + 1)
      l1     == log \o d.events
      follow == IF json THEN (c.state # ABSENT \/ c.claim # ABSENT \/ c.rpath # ABSENT) /\ (HasResult(c) \/ ~EmptyUpd(u))
                ELSE ~EmptyUpd(u)
      f      == FollowUps(l1, now + 1, c, id, u)
      final  == Replay(f.log)
  IN IF ~valid THEN Rejected(log, now)
     ELSE IF ~d.ok THEN Rejected(log, now)
     ELSE IF ~follow THEN
        Res(0, l1, now + 1, [Reply0 EXCEPT !.kind = "task", !.id = id, !.state = "todo", !.epic = epic])
     ELSE IF ~f.ok THEN
        (IF "D5" \in Dev THEN Res(1, f.partial, now + 3, Reply0) ELSE Rejected(log, now))
     ELSE Res(0, f.log, now + 3,
              [Reply0 EXCEPT !.kind = "task", !.id = id, !.epic = epic,
                             !.state = IF "D5" \in Dev THEN "todo" ELSE final.items[id].state])

RunNewEpic(log, now, c) ==
  LET json  == c.mode = "json"
      title == IF json THEN c.title ELSE Trim(c.title)
      body  == IF Fld(c, c.body) = ABSENT THEN "" ELSE c.body
      valid == IF json THEN (c.title # ABSENT /\ ~Blank(c.title)) /\ (c.body # ABSENT => ~Blank(c.body))
               ELSE (c.title # ABSENT /\ ~Blank(c.title))
      id    == NewId(c, 1)
      d     == DecideCreate(Replay(log), "epic", "", title, body, id, now + 1)
  IN IF ~valid \/ ~d.ok THEN Rejected(log, now)
     ELSE Res(0, log \o d.events, now + 1, [Reply0 EXCEPT !.kind = "epic", !.id = id, !.state = "todo"])

RunSet(log, now, c) ==
  LET json  == c.mode = "json"
      u     == UpdOf(c)
      valid == /\ (json => JsonFieldsOK(c, FALSE))
               /\ (c.mode = "bodystdin" => ~Blank(c.body))
               /\ ResultPairOK(c)
               /\ (HasResult(c) \/ ~EmptyUpd(u))
      f     == FollowUps(log, now, c, c.id, u)
      final == Replay(f.log)
  IN IF ~valid THEN Rejected(log, now)
     ELSE IF ~f.ok THEN
        (IF "D6" \in Dev THEN Res(1, f.partial, now + 2, Reply0) ELSE Rejected(log, now))
     ELSE Res(0, f.log, now + 2,
              [Reply0 EXCEPT !.kind = "set", !.id = c.id,
                             !.state = IF c.id \in Live(final) THEN final.items[c.id].state ELSE "",
                             !.claim = IF c.id \in Live(final) THEN final.items[c.id].claim ELSE ""])

RunClaimId(log, now, c) ==
  LET d     == SecSet(log, [NoUpd EXCEPT !.claim = c.agent, !.state = "doing"], c.id, c.agent, now + 1)
      final == Replay(log \o d.events)
  IN IF c.agent = "" \/ ~d.ok THEN Rejected(log, now)
     ELSE Res(0, log \o d.events, now + 1,
              [Reply0 EXCEPT !.kind = "claim", !.id = c.id, !.state = final.items[c.id].state,
                             !.claim = c.agent, !.epic = final.items[c.id].epic])

\* `pick` resolves a tie between equally old ready tasks
RunClaim(log, now, c, pick) ==
  LET g == Replay(log)
      d == DecideClaimOldest(g, c.epic, c.agent, pick, now + 1)
  IN IF c.agent = "" \/ ~d.ok THEN Rejected(log, now)
     ELSE IF d.err = "no_ready" THEN Res(0, log, now, [Reply0 EXCEPT !.kind = "claim", !.status = "no_ready"])
     ELSE Res(0, log \o d.events, now + 1,
              [Reply0 EXCEPT !.kind = "claim", !.id = pick, !.state = "doing", !.claim = c.agent,
                             !.epic = g.items[pick].epic])

\* sequence A B C: one LinkEdge section per edge (B->A, C->B)
RECURSIVE LinkAll(_, _, _, _)
LinkAll(log, now, op, edges) ==       \* returns [ok, log, now, partial]
  IF edges = <<>> THEN [ok |-> TRUE, log |-> log, now |-> now]
  ELSE LET d == DecideLink(Replay(log), op, Head(edges)[1], Head(edges)[2], now + 1)
       IN IF ~d.ok THEN [ok |-> FALSE, log |-> log, now |-> now]
          ELSE LinkAll(log \o d.events, now + 1, op, Tail(edges))

SeqEdges(ids) == [k \in 1..(Len(ids) - 1) |-> <<ids[k + 1], ids[k]>>]

RunSequence(log, now, c) ==
  LET edges == SeqEdges(c.ids)
      r     == LinkAll(log, now, "link", edges)
  IN IF Len(c.ids) < 2 THEN Rejected(log, now)
     ELSE IF ~r.ok THEN (IF "D7" \in Dev THEN Res(1, r.log, r.now, Reply0) ELSE Rejected(log, now))
     ELSE Res(0, r.log, r.now, [Reply0 EXCEPT !.kind = "sequence",
                                               !.edges = {edges[k] : k \in 1..Len(edges)}])

RunSequenceRm(log, now, c) ==
  LET d == DecideLink(Replay(log), "unlink", c.b, c.a, now + 1)
  IN IF ~d.ok THEN Rejected(log, now)
     ELSE Res(0, log \o d.events, now + 1, [Reply0 EXCEPT !.kind = "sequence", !.edges = {<<c.b, c.a>>}])

RunPrune(log, now, c) ==
  LET d == DecidePrune(Replay(log), c.yes, now + 1)
  IN IF ~d.ok THEN Rejected(log, now)
     ELSE Res(0, log \o d.events, now + 1, [Reply0 EXCEPT !.kind = "prune", !.pruned = d.out.pruned])

RunCompact(log, now, c) ==
  LET g == Replay(log)
  IN IF g.err # "" THEN Rejected(log, now)
     ELSE Res(0, CompactLog(g, now + 1), now + 1, [Reply0 EXCEPT !.kind = "compact", !.status = "ok"])

RunPlan(log, now, c) ==
  LET d == DecidePlan(Replay(log), c.doc, [k \in 1..(Len(c.doc.tasks) + 1) |-> NewId(c, k)], now + 1)
  IN IF ~d.ok THEN Rejected(log, now)
     ELSE Res(0, log \o d.events, now + PlanSpan(c.doc),
              [Reply0 EXCEPT !.kind = "plan", !.id = d.out.epic, !.ids = d.out.tasks, !.edges = d.out.edges])

\* list --ready [--epic E] --json: the ready tasks (in an order ids do not determine here)
RunListReady(log, now, c) ==
  LET g == Replay(log)
  IN IF g.err # "" THEN Rejected(log, now)
     ELSE Res(0, log, now, [Reply0 EXCEPT !.kind = "list", !.ids = SetToSeq(ReadySet(g, c.epic))])

\* the other reads, with --json: which ids they list / what they show
ListedBy(g, c) ==
  CASE c.name = "list"      -> {t \in TasksOf(g) : ~Closed(g.items[t].state)}
    [] c.name = "list_all"  -> TasksOf(g)
    [] c.name = "list_epics" -> EpicsOf(g)
    [] c.name = "list_epic" -> {t \in TasksOf(g) : g.items[t].epic = c.epic /\ ~Closed(g.items[t].state)}
    [] OTHER -> {}
RunRead(log, now, c) ==
  LET g == Replay(log)
  IN IF g.err # "" THEN Rejected(log, now)
     ELSE IF c.name = "show"
       THEN IF c.id \notin Live(g) THEN Rejected(log, now)
            ELSE Res(0, log, now, [Reply0 EXCEPT !.kind = "show", !.id = c.id, !.state = g.items[c.id].state,
                                                  !.claim = g.items[c.id].claim, !.epic = g.items[c.id].epic])
       ELSE Res(0, log, now, [Reply0 EXCEPT !.kind = "list", !.ids = SetToSeq(ListedBy(g, c))])

\* JSON on stdin must be ONE value: anything but white space after it is refused
\* (c.trail, when present, says what follows the document)
TrailForms == {"ws", "brace", "bracket", "value", "garbage", "brace_value"}
StdinOK(c) == "trail" \notin DOMAIN c \/ c.trail = "ws"

\* deterministic commands
Run(log, now, c) ==
  CASE ~StdinOK(c)            -> Rejected(log, now)
    [] c.name = "new_task"    -> RunNewTask(log, now, c)
    [] c.name = "new_epic"    -> RunNewEpic(log, now, c)
    [] c.name = "set"         -> RunSet(log, now, c)
    [] c.name = "claim_id"    -> RunClaimId(log, now, c)
    [] c.name = "sequence"    -> RunSequence(log, now, c)
    [] c.name = "sequence_rm" -> RunSequenceRm(log, now, c)
    [] c.name = "prune"       -> RunPrune(log, now, c)
    [] c.name = "compact"     -> RunCompact(log, now, c)
    [] c.name = "plan"        -> RunPlan(log, now, c)
    [] c.name = "list_ready"  -> RunListReady(log, now, c)
    [] c.name \in {"list", "list_all", "list_epics", "list_epic", "show"} -> RunRead(log, now, c)
    [] OTHER                  -> Res(0, log, now, Reply0)      \* other reads

\* every outcome the spec allows for c (claim may have to break a tie)
Outcomes(log, now, c) ==
  IF c.name = "claim"
    THEN LET cand == OldestReady(Replay(log), c.epic)
         IN IF cand = {} \/ c.agent = "" \/ Replay(log).err # "" THEN {RunClaim(log, now, c, "")}
            ELSE {RunClaim(log, now, c, p) : p \in cand}
    ELSE {Run(log, now, c)}
=============================================================================
