------------------------------ MODULE ErgoTrace ------------------------------
(***************************************************************************)
(* Trace specification: judges steps OBSERVED from the real binary.        *)
(*                                                                         *)
(* The harness writes one NDJSON record per executed step:                 *)
(*   [cmd, exit, reply, out, pre, post, logpre, logpost, gone, tag]        *)
(* with ids, agents and timestamps already renamed to the spec's           *)
(* vocabulary (it parses and renames; it evaluates no property).  This     *)
(* module consumes the records in order; for each one it evaluates         *)
(*   (a) every property clause of ErgoProps on the observed values, and    *)
(*   (b) the refinement clauses R_*: the observed step is a step of the    *)
(*       AS-IS specification (ErgoCmds with Dev = AsIs) - same exit        *)
(*       status, same appended events, same reply - and the observed view  *)
(*       is View(Replay(observed log)).                                    *)
(* Nothing stops at the first failure: failing <<line, clause>> pairs are  *)
(* accumulated in `bad` and serialised as JSON when the last record has    *)
(* been consumed.  (a) gives verdicts; (b) demonstrates the binding and    *)
(* measures model drift.                                                   *)
(***************************************************************************)
EXTENDS Naturals, Sequences, FiniteSets, TLC, Json

CONSTANTS ObsFile, OutFile, AsIsDev

P    == INSTANCE ErgoProps WITH Dev <- {}
AsIs == INSTANCE ErgoCmds WITH Dev <- AsIsDev
Ops  == INSTANCE ErgoOps WITH Dev <- {}
Cn   == INSTANCE ErgoConc WITH Dev <- {}
Tx   == INSTANCE ErgoText
FS   == INSTANCE ErgoFS WITH Dev <- {}
HL   == INSTANCE ErgoList WITH Dev <- {}
LN   == INSTANCE ErgoLines

Raw == ndJsonDeserialize(ObsFile)

ToSet(s) == {s[k] : k \in DOMAIN s}
NormView(v) == [i \in DOMAIN v |-> [v[i] EXCEPT !.deps = ToSet(@), !.rdeps = ToSet(@)]]
NormReply(r) == [r EXCEPT !.edges = ToSet(@), !.pruned = ToSet(@)]
NormObs(r) == [r EXCEPT !.pre = NormView(@), !.post = NormView(@), !.reply = NormReply(@),
                        !.gone = ToSet(@),
                        !.procs = [k \in DOMAIN @ |-> [@[k] EXCEPT !.reply = NormReply(@)]],
                        !.after = [k \in DOMAIN @ |-> [@[k] EXCEPT !.view = NormView(@)]]]

NormFS(f) == [f EXCEPT !.cfg = [@ EXCEPT !.stores = ToSet(@)]]

NormHL(h) == [h EXCEPT !.view = NormView(@)]

VARIABLES i, bad
vars == <<i, bad>>

(***************************************************************************)
(* Refinement of the as-is specification.                                  *)
(***************************************************************************)
MaxTs(log) == IF log = <<>> THEN 0 ELSE Ops!MaxT(0, CHOOSE m \in {log[k].ts : k \in 1..Len(log)} :
                                                       \A k \in 1..Len(log) : log[k].ts <= m)
ZeroTs(log) == [k \in 1..Len(log) |-> [log[k] EXCEPT !.ts = 0]]
ZeroView(v) == Ops!NoTime(v)

Modelled(c) == c.name \in {"new_task", "new_epic", "set", "claim_id", "claim", "sequence",
                           "sequence_rm", "prune", "prune_dry", "compact", "plan", "list_ready",
                           "list", "list_all", "list_epics", "list_epic", "show"}
NormCmd(c) == IF c.name = "prune_dry" THEN [c EXCEPT !.name = "prune"] ELSE c

\* some outcome the as-is spec allows has this exit status, these events, this reply
R_step(o) ==
  Modelled(o.cmd) /\ Ops!Replay(o.logpre).err = "" =>
    \E r \in AsIs!Outcomes(o.logpre, MaxTs(o.logpre), NormCmd(o.cmd)) :
       /\ r.exit = o.exit
       /\ IF o.cmd.name = "compact"
            THEN ZeroView(Ops!View(Ops!Replay(r.log))) = ZeroView(Ops!View(Ops!Replay(o.logpost)))
            ELSE IF o.cmd.name = "prune"       \* tombstones are written in id order; ids are opaque here
            THEN /\ Len(r.log) = Len(o.logpost)
                 /\ P!IsPrefix(o.logpre, o.logpost)
                 /\ ToSet(ZeroTs(r.log)) = ToSet(ZeroTs(o.logpost))
            ELSE ZeroTs(r.log) = ZeroTs(o.logpost)
R_reply(o) ==
  Modelled(o.cmd) /\ o.out.json /\ o.exit = 0 /\ Ops!Replay(o.logpre).err = "" =>
    \E r \in AsIs!Outcomes(o.logpre, MaxTs(o.logpre), NormCmd(o.cmd)) :
       /\ r.exit = 0
       /\ r.reply.id = o.reply.id /\ r.reply.state = o.reply.state
       /\ r.reply.claim = o.reply.claim /\ r.reply.status = o.reply.status
       /\ (IF o.cmd.name \in {"list_ready", "list", "list_all", "list_epics", "list_epic"} THEN ToSet(r.reply.ids) = ToSet(o.reply.ids)
                                         ELSE r.reply.ids = o.reply.ids)
       /\ r.reply.edges = o.reply.edges
       /\ r.reply.pruned = o.reply.pruned
\* timestamps of appended events never run backwards
R_time(o) == o.cmd.name # "compact" /\ Len(o.logpost) > Len(o.logpre) /\ P!IsPrefix(o.logpre, o.logpost) =>
               \A k \in (Len(o.logpre) + 1)..Len(o.logpost) :
                  o.logpost[k].type \in {"link", "unlink"} \/ o.logpost[k].ts >= MaxTs(o.logpre)
\* a failing command appends nothing, observable or not (C10 itself speaks of
\* the observable state only; this is recorded as drift, not as a verdict)
R_faillog(o) == o.exit # 0 => o.logpost = o.logpre
R_preview(o) == Ops!Replay(o.logpre).err = "" => Ops!View(Ops!Replay(o.logpre)) = o.pre

(***************************************************************************)
(* Clause table.                                                           *)
(***************************************************************************)
ClauseNames ==
  { "C05_invisible", "C05_idempotent", "C05_gone_stay",
    "C06_states", "C06_claiminv", "C06_epics", "C06_illegal_refused", "C06_legal_accepted",
    "C06_lands", "C06_untouched",
    "C07_acyclic", "C07_noself", "C07_samekind", "C07_live", "C07_mirror", "C07_rm_exact",
    "C07_add_exact", "C07_bad_refused", "C07_only_edges",
    "C08_flags", "C08_readylist", "C08_claim", "C08_claim_effect",
    "C09_exact", "C09_dryrun", "C09_gone", "C09_refused", "C09_noreissue",
    "C10_unchanged",
    "C11_invalid_refused", "C11_adds_exactly", "C11_preserves",
    "C12_function_of_log", "C12_reads_pure", "C12_history_grows", "C12_readable", "C12_consistent",
    "C14_ref", "C14_epics_flat", "C14_bad_refused", "C14_compact_keeps", "C14_visible",
    "C15_progress", "C15_waits", "C15_claim",
    "C16_one_value", "C16_truth", "C16_reads", "C16_set_applied", "C16_rows", "C08_rows",
    "C20_only_grow", "C20_confined", "C20_live_only", "C20_faithful",
    "C01_serial", "C01_no_double", "C01_outcomes", "C01_winner_holds",
    "C02_serial", "C02_wholelines", "C02_nowait", "C02_busy_fast", "C07_final", "C13_reader",
    "C03_acked_survive", "C03_acked_effects",
    "C09_serial",
    "C10_serial",
    "C14_final",
    "C16_prune_truth",
    "C04_stays",
    "C06_serial",
    "C06_final",
    "C15_final",
    "C08_serial",
    "C01_nowait",
    "C03_readable", "C03_only_own_missing", "C03_continues", "C04_all_or_nothing",
    "C18_where", "C18_same_store", "C18_lands", "C18_reads_work", "C18_lock", "C18_init",
    "C19_summary_noready", "C19_ready_rows", "C19_all_once", "C19_active_once", "C19_ready_exact", "C19_known_rows", "C19_tree", "C19_summary", "C19_empty", "C19_fits", "C19_idcol", "C19_utf8",
    "C12_file_total", "C12_file_names_line", "C12_file_shows", "C12_file_deterministic", "C12_file_pure",
    "C17_roundtrip", "C17_stays", "C17_accepted", "C17_overlimit", "C17_blank", "C10_text_reject",
    "R_step", "R_reply", "R_time", "R_preview", "R_faillog" }

Eval(n, o) ==
  CASE n = "C05_invisible" -> P!C05_invisible(o)
    [] n = "C05_idempotent" -> P!C05_idempotent(o)
    [] n = "C05_gone_stay" -> P!C05_gone_stay(o)
    [] n = "C06_states" -> P!C06_states(o)
    [] n = "C06_claiminv" -> P!C06_claiminv(o)
    [] n = "C06_epics" -> P!C06_epics(o)
    [] n = "C06_illegal_refused" -> P!C06_illegal_refused(o)
    [] n = "C06_legal_accepted" -> P!C06_legal_accepted(o)
    [] n = "C06_lands" -> P!C06_lands(o)
    [] n = "C06_untouched" -> P!C06_untouched(o)
    [] n = "C07_acyclic" -> P!C07_acyclic(o)
    [] n = "C07_noself" -> P!C07_noself(o)
    [] n = "C07_samekind" -> P!C07_samekind(o)
    [] n = "C07_live" -> P!C07_live(o)
    [] n = "C07_mirror" -> P!C07_mirror(o)
    [] n = "C07_rm_exact" -> P!C07_rm_exact(o)
    [] n = "C07_add_exact" -> P!C07_add_exact(o)
    [] n = "C07_bad_refused" -> P!C07_bad_refused(o)
    [] n = "C07_only_edges" -> P!C07_only_edges(o)
    [] n = "C08_flags" -> P!C08_flags(o)
    [] n = "C08_readylist" -> P!C08_readylist(o)
    [] n = "C08_claim" -> P!C08_claim(o)
    [] n = "C08_claim_effect" -> P!C08_claim_effect(o)
    [] n = "C09_exact" -> P!C09_exact(o)
    [] n = "C09_dryrun" -> P!C09_dryrun(o)
    [] n = "C09_gone" -> P!C09_gone(o)
    [] n = "C09_refused" -> P!C09_refused(o)
    [] n = "C09_noreissue" -> P!C09_noreissue(o)
    [] n = "C10_unchanged" -> P!C10_unchanged(o)
    [] n = "C11_invalid_refused" -> P!C11_invalid_refused(o)
    [] n = "C11_adds_exactly" -> P!C11_adds_exactly(o)
    [] n = "C11_preserves" -> P!C11_preserves(o)
    [] n = "C12_function_of_log" -> P!C12_function_of_log(o)
    [] n = "C12_reads_pure" -> P!C12_reads_pure(o)
    [] n = "C12_history_grows" -> P!C12_history_grows(o)
    [] n = "C12_readable" -> P!C12_readable(o)
    [] n = "C12_consistent" -> P!C12_consistent(o)
    [] n = "C14_ref" -> P!C14_ref(o)
    [] n = "C14_visible" -> P!C14_visible(o)
    [] n = "C14_epics_flat" -> P!C14_epics_flat(o)
    [] n = "C14_bad_refused" -> P!C14_bad_refused(o)
    [] n = "C14_compact_keeps" -> P!C14_compact_keeps(o)
    [] n = "C15_progress" -> P!C15_progress(o)
    [] n = "C15_waits" -> P!C15_waits(o)
    [] n = "C15_claim" -> P!C15_claim(o)
    [] n = "C16_one_value" -> P!C16_one_value(o)
    [] n = "C16_truth" -> P!C16_truth(o)
    [] n = "C16_reads" -> P!C16_reads(o)
    [] n = "C16_set_applied" -> P!C16_set_applied(o)
    [] n = "C16_rows" -> P!C16_rows(o)
    [] n = "C08_rows" -> P!C08_rows(o)
    [] n = "C20_only_grow" -> P!C20_only_grow(o)
    [] n = "C20_confined" -> P!C20_confined(o)
    [] n = "C20_live_only" -> P!C20_live_only(o)
    [] n = "C20_faithful" -> P!C20_faithful(o)
    [] n = "C01_serial" -> Cn!C01_serial(o)
    [] n = "C01_no_double" -> Cn!C01_no_double(o)
    [] n = "C01_outcomes" -> Cn!C01_outcomes(o)
    [] n = "C01_winner_holds" -> Cn!C01_winner_holds(o)
    [] n = "C02_serial" -> Cn!C02_serial(o)
    [] n = "C02_wholelines" -> Cn!C02_wholelines(o)
    [] n = "C02_nowait" -> Cn!C02_nowait(o)
    [] n = "C02_busy_fast" -> Cn!C02_busy_fast(o)
    [] n = "C07_final" -> Cn!C07_final(o)
    [] n = "C13_reader" -> Cn!C13_reader(o)
    [] n = "C03_acked_survive" -> Cn!C03_acked_survive(o)
    [] n = "C03_acked_effects" -> Cn!C03_acked_effects(o)
    [] n = "C09_serial" -> Cn!C09_serial(o)
    [] n = "C10_serial" -> Cn!C10_serial(o)
    [] n = "C14_final" -> Cn!C14_final(o)
    [] n = "C16_prune_truth" -> Cn!C16_prune_truth(o)
    [] n = "C04_stays" -> Cn!C04_stays(o)
    [] n = "C06_serial" -> Cn!C06_serial(o)
    [] n = "C06_final" -> Cn!C06_final(o)
    [] n = "C15_final" -> Cn!C15_final(o)
    [] n = "C08_serial" -> Cn!C08_serial(o)
    [] n = "C01_nowait" -> Cn!C01_nowait(o)
    [] n = "C03_readable" -> Cn!C03_readable(o)
    [] n = "C03_only_own_missing" -> Cn!C03_only_own_missing(o)
    [] n = "C03_continues" -> Cn!C03_continues(o)
    [] n = "C04_all_or_nothing" -> Cn!C04_all_or_nothing(o)
    [] n = "C18_where" -> FS!C18_where(NormFS(o.fs))
    [] n = "C18_same_store" -> FS!C18_same_store(NormFS(o.fs))
    [] n = "C18_lands" -> FS!C18_lands(NormFS(o.fs))
    [] n = "C18_reads_work" -> FS!C18_reads_work(NormFS(o.fs))
    [] n = "C18_lock" -> FS!C18_lock(NormFS(o.fs))
    [] n = "C18_init" -> FS!C18_init(NormFS(o.fs))
    [] n = "C19_summary_noready" -> HL!C19_summary_noready(NormHL(o.hl))
    [] n = "C19_ready_rows" -> HL!C19_ready_rows(NormHL(o.hl))
    [] n = "C19_all_once" -> HL!C19_all_once(NormHL(o.hl))
    [] n = "C19_active_once" -> HL!C19_active_once(NormHL(o.hl))
    [] n = "C19_ready_exact" -> HL!C19_ready_exact(NormHL(o.hl))
    [] n = "C19_known_rows" -> HL!C19_known_rows(NormHL(o.hl))
    [] n = "C19_tree" -> HL!C19_tree(NormHL(o.hl))
    [] n = "C19_summary" -> HL!C19_summary(NormHL(o.hl))
    [] n = "C19_empty" -> HL!C19_empty(NormHL(o.hl))
    [] n = "C19_fits" -> HL!C19_fits(NormHL(o.hl))
    [] n = "C19_idcol" -> HL!C19_idcol(NormHL(o.hl))
    [] n = "C19_utf8" -> HL!C19_utf8(NormHL(o.hl))
    [] n = "C12_file_total" -> LN!C12_file_total(o.lines)
    [] n = "C12_file_names_line" -> LN!C12_file_names_line(o.lines)
    [] n = "C12_file_shows" -> LN!C12_file_shows(o.lines)
    [] n = "C12_file_deterministic" -> LN!C12_file_deterministic(o.lines)
    [] n = "C12_file_pure" -> LN!C12_file_pure(o.lines)
    [] n = "C17_roundtrip" -> Tx!C17_roundtrip(o.text)
    [] n = "C17_stays" -> Tx!C17_stays(o.text)
    [] n = "C17_accepted" -> Tx!C17_accepted(o.text)
    [] n = "C17_overlimit" -> Tx!C17_overlimit(o.text)
    [] n = "C17_blank" -> Tx!C17_blank(o.text)
    [] n = "C10_text_reject" -> Tx!C10_text_reject(o.text)
    [] n = "R_step" -> R_step(o)
    [] n = "R_reply" -> R_reply(o)
    [] n = "R_time" -> R_time(o)
    [] n = "R_preview" -> R_preview(o)
    [] n = "R_faillog" -> R_faillog(o)

\* the clauses the harness asked for on this record (all, unless it names some)
ConcNames == {"C01_serial", "C01_no_double", "C01_outcomes", "C01_winner_holds",
              "C02_serial", "C02_wholelines", "C02_nowait", "C02_busy_fast", "C07_final", "C13_reader",
              "C03_acked_survive", "C03_acked_effects",
              "C09_serial",
              "C10_serial",
              "C14_final",
              "C16_prune_truth",
              "C04_stays",
              "C06_serial",
              "C06_final",
              "C15_final",
              "C08_serial",
              "C01_nowait",
              "C03_readable", "C03_only_own_missing", "C03_continues", "C04_all_or_nothing"}
TextNames == {"C18_where", "C18_same_store", "C18_lands", "C18_reads_work", "C18_lock", "C18_init", "C19_summary_noready", "C19_ready_rows", "C19_all_once", "C19_active_once", "C19_ready_exact", "C19_known_rows", "C19_tree", "C19_summary", "C19_empty", "C19_fits", "C19_idcol", "C19_utf8", "C12_file_total", "C12_file_names_line", "C12_file_shows", "C12_file_deterministic", "C12_file_pure", "C17_roundtrip", "C17_stays", "C17_accepted", "C17_overlimit", "C17_blank", "C10_text_reject"}
Wanted(r) == IF "only" \in DOMAIN r THEN ToSet(r.only) \cap ClauseNames ELSE ClauseNames \ (ConcNames \cup TextNames)

Init == i = 0 /\ bad = {}
Next == /\ i < Len(Raw)
        /\ i' = i + 1
        /\ LET r == Raw[i + 1]
               o == NormObs(r)
           IN bad' = bad \cup {<<i + 1, n>> : n \in {m \in Wanted(r) : ~Eval(m, o)}}
Spec == Init /\ [][Next]_vars

Done == i = Len(Raw) =>
          JsonSerialize(OutFile, [n |-> Len(Raw),
                                  bad |-> {[line |-> b[1], clause |-> b[2]] : b \in bad}])
Consumed == TLCGet("stats").diameter - 1 = Len(Raw) \/ Len(Raw) = 0
=============================================================================
