------------------------------ MODULE ErgoText ------------------------------
(***************************************************************************)
(* Text: which input path may alter a title or body, and the case matrix   *)
(* for the round-trip property C17.                                        *)
(*                                                                         *)
(* A string is abstracted to a CLASS (what kind of characters it contains  *)
(* and whether it has surrounding whitespace); the harness concretises a   *)
(* class into seeded concrete strings, sends them through the real binary  *)
(* along the PATH the case names, reads them back with `show --json` and   *)
(* reports, as a fact, how what came back relates to what went in:         *)
(*     "equal"     identical, byte for byte                                *)
(*     "trimmed"   identical to the input with surrounding whitespace      *)
(*                 removed (and different from the input)                  *)
(*     "ignored" (set) the item shows what it had before                   *)
(*     "different" anything else     "rejected" the command refused it     *)
(* Which relation is acceptable where is decided here.                     *)
(***************************************************************************)
EXTENDS Naturals, Sequences, FiniteSets, TLC, Json

Modes  == {"json", "flags", "bodystdin"}
Cmds   == {"new_task", "new_epic", "set", "plan"}
Fields == {"title", "body"}
Follow == {"none", "set_other", "compact", "compact2", "plan_after", "set_back"}

\* classes of text; "pad*" have surrounding whitespace
Classes == {"ascii", "pad_space", "pad_tab_nl", "newlines", "crlf", "quotes", "control",
            "html", "linesep", "astral", "combining", "nbsp_pad", "long64k", "html200k", "json_like", "over_limit", "unicode_blank", "long_multibyte", "near_limit", "mentions_id"}
Padded(c) == c \in {"pad_space", "pad_tab_nl"}

\* the paths that exist: plan is JSON only and carries both fields; --body-stdin
\* carries the body on stdin and the title as a flag
PathExists(m, c, f) ==
  /\ (c = "plan" => m = "json")
  /\ (m = "bodystdin" /\ f = "body" => TRUE)
  /\ ~(m = "flags" /\ f = "body" /\ c = "plan")
\* argv cannot carry NUL; control covers C0 without NUL on flag paths (harness)

\* the ONLY documented alteration: surrounding whitespace of titles given by
\* flag (flags and --body-stdin modes) or by `set`
MayTrim(m, c, f) == f = "title" /\ (m \in {"flags", "bodystdin"} \/ c = "set")

\* "pieces": what is read from stdin arrives in several writes with pauses between
\* them (a producer that prints as it goes) instead of one
Cases ==
  {[mode |-> m, cmd |-> c, field |-> f, class |-> k, follow |-> w, pieces |-> p] :
      m \in Modes, c \in Cmds, f \in Fields, k \in Classes, w \in Follow, p \in BOOLEAN}
\* "mentions_id": ordinary text that happens to contain the id of a pruned item and of a live one
\* "near_limit": bodies whose size is swept across the largest line the log format
\* admits (whatever that is: the driver finds it by bisection)
RealCases == {x \in Cases : /\ PathExists(x.mode, x.cmd, x.field)
                            /\ (x.pieces => x.mode # "flags" /\ x.follow = "none" /\ x.class # "near_limit")
                            /\ (x.class = "near_limit" => x.field = "body" /\ x.follow \in {"none", "compact"})}
Limit == {"over_limit", "near_limit"}

\* the verdict on one observed round trip r = [case, rel, rel_after]
C17_roundtrip(r) ==
  LET ok == IF MayTrim(r.case.mode, r.case.cmd, r.case.field) THEN {"equal", "trimmed"} ELSE {"equal"}
  IN r.rel \in ok \/ (r.case.class \in (Limit \cup {"unicode_blank"}) /\ r.rel = "rejected")
               \/ (r.case.class = "unicode_blank" /\ r.rel = "ignored" /\ r.case.cmd = "set" /\ r.case.field = "title"
                     /\ r.case.mode \in {"flags", "bodystdin"})
C17_stays(r) == (r.rel \in {"equal", "trimmed"} /\ r.case.class # "over_limit") => r.rel_after = r.rel
\* valid text is not refused (long inputs included): every class here is valid
\* Unicode and not blank
\* (the one class beyond what the log format admits - a line over the reader's
\* limit - may be refused, but then nothing may have changed and the store must
\* still be readable; if it is accepted it must round-trip like any other text)
C17_accepted(r) == r.case.class \notin (Limit \cup {"unicode_blank"}) => r.rel # "rejected"
\* text that is nothing but (Unicode) whitespace may be refused; if it is taken it is
\* stored like any other text, never replaced by something else
\* (a title given by FLAG that trims to nothing is a flag that was not given: in the
\* flag modes "" cannot be told from absent - ErgoCmds!Fld -, so a `set` that carries
\* another field goes ahead and leaves the title as it was)
C17_blank(r) == r.case.class = "unicode_blank" =>
                  r.rel \in {"rejected", "equal", "trimmed"}
                            \cup (IF r.case.cmd = "set" /\ r.case.field = "title" /\ r.case.mode \in {"flags", "bodystdin"}
                                  THEN {"ignored"} ELSE {})
C17_overlimit(r) == r.case.class \in Limit =>
                      /\ r.store_readable
                      /\ (r.rel = "rejected" => r.store_unchanged)

\* C10 on the text paths: a refused command leaves no trace, whatever the text was
C10_text_reject(r) == r.rel = "rejected" => (r.store_readable /\ r.store_unchanged)

EmitCases == PrintT("@ST " \o ToJson(RealCases))
=============================================================================
