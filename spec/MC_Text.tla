------------------------------- MODULE MC_Text -------------------------------
EXTENDS ErgoText
ASSUME EmitCases
VARIABLE x
Init == x = 0
Next == x' = x
\* design-level sanity: every path that trims is a title path, and JSON creation never trims
TrimOnlyTitles == \A c \in RealCases : MayTrim(c.mode, c.cmd, c.field) => c.field = "title"
JsonCreateVerbatim == \A c \in RealCases : (c.mode = "json" /\ c.cmd \in {"new_task", "new_epic", "plan"}) => ~MayTrim(c.mode, c.cmd, c.field)
=============================================================================
