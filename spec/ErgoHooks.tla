------------------------------ MODULE ErgoHooks ------------------------------
(***************************************************************************)
(* Trace validation of HARVESTED executions (E6).                          *)
(*                                                                         *)
(* The repository's own test-suite is run with the hooks compiled in and   *)
(* ERGO_VERIF_TRACE set: every ergo process appends one record per sync    *)
(* point to one file (O_APPEND; a record written while the store lock is   *)
(* held is therefore ordered by the lock).  This module checks the file    *)
(* against the process layer of the specification:                         *)
(*                                                                         *)
(*  PerProcess  the points of one process, in order, are a path of the     *)
(*              parking-point automaton of ErgoProc (flock -> acquired |   *)
(*              busy; acquired -> reads -> writes -> releasing ->          *)
(*              released; nothing is written outside a held lock ...)      *)
(*  MutualExclusion  per store, between one process's lock.acquired and    *)
(*              its lock.releasing no other process records lock.acquired  *)
(*  WritesUnderLock  every append.* / tmp.* / rename.* of a store lies     *)
(*              inside such a window of the same process                   *)
(*                                                                         *)
(* Trace is a sequence of [pid, point, store]; the harness only parses the *)
(* file and names the store (the directory of the lock/log path).          *)
(***************************************************************************)
EXTENDS Naturals, Sequences, FiniteSets, TLC, Json

CONSTANTS TraceFile, OutFile

Recs == ndJsonDeserialize(TraceFile)

\* per-process automaton: state -> point -> state ("" = reject)
\*   idle      not holding, not trying
\*   trying    after lock.attempt (may create the lock file)
\*   flock     after lock.flock
\*   held      after lock.acquired (reads, then writes)
\*   wrote     at least one write done
\*   tmp       temp file written, rename pending
\*   releasing after lock.releasing
ReadPoints == {"path.plans", "path.legacy", "path.default", "read.open", "read.scanned", "read.probed", "section"}
Delta(st, pt) ==
  CASE st = "idle" /\ pt \in ReadPoints \cup {"ensure.create"} -> "idle"      \* lock-free reads; init creating files
    [] st = "idle" /\ pt = "lock.attempt" -> "trying"
    [] st = "trying" /\ pt = "ensure.create" -> "trying"
    [] st = "trying" /\ pt = "lock.flock" -> "flock"
    [] st = "flock" /\ pt = "lock.busy" -> "idle"
    [] st = "flock" /\ pt = "lock.acquired" -> "held"
    [] st \in {"held", "wrote"} /\ pt \in ReadPoints -> st
    [] st \in {"held", "wrote"} /\ pt = "append.before" -> "appending"
    [] st = "appending" /\ pt = "append.after" -> "wrote"
    [] st \in {"held", "wrote"} /\ pt = "tmp.before" -> "tmp"
    [] st = "tmp" /\ pt = "rename.before" -> "renaming"
    [] st = "renaming" /\ pt = "rename.after" -> "wrote"
    [] st \in {"held", "wrote"} /\ pt = "lock.releasing" -> "releasing"
    [] st = "releasing" /\ pt = "lock.released" -> "idle"
    [] OTHER -> "reject"

VARIABLES i, st, holder, bad
vars == <<i, st, holder, bad>>

Init == i = 0 /\ st = <<>> /\ holder = <<>> /\ bad = {}

StOf(p) == IF p \in DOMAIN st THEN st[p] ELSE "idle"
HolderOf(s) == IF s \in DOMAIN holder THEN holder[s] ELSE 0

Next ==
  /\ i < Len(Recs)
  /\ i' = i + 1
  /\ LET r == Recs[i + 1]
         p == r.pid
         n == Delta(StOf(p), r.point)
         isWrite == r.point \in {"append.before", "append.after", "tmp.before", "rename.before", "rename.after"}
         h == HolderOf(r.store)
         newbad ==
           (IF n = "reject" THEN {<<i + 1, "PerProcess">>} ELSE {})
           \cup (IF r.point = "lock.acquired" /\ h # 0 /\ h # p THEN {<<i + 1, "MutualExclusion">>} ELSE {})
           \cup (IF isWrite /\ h # p THEN {<<i + 1, "WritesUnderLock">>} ELSE {})
     IN /\ st' = [q \in DOMAIN st \cup {p} |-> IF q = p THEN (IF n = "reject" THEN "idle" ELSE n) ELSE st[q]]
        /\ holder' = [s \in DOMAIN holder \cup {r.store} |->
                        IF s # r.store THEN holder[s]
                        ELSE IF r.point = "lock.acquired" THEN p
                        ELSE IF r.point = "lock.releasing" /\ h = p THEN 0
                        ELSE h]
        /\ bad' = bad \cup newbad
Spec == Init /\ [][Next]_vars

Done == i = Len(Recs) => JsonSerialize(OutFile, [n |-> Len(Recs), bad |-> {[line |-> b[1], clause |-> b[2]] : b \in bad}])
Consumed == TLCGet("stats").diameter - 1 = Len(Recs) \/ Len(Recs) = 0
=============================================================================
