------------------------------- MODULE MC_Proc -------------------------------
(* Scenario menus for the process layer.  The harness learns the scenarios   *)
(* from TLC's own output (ScenarioTable is printed once), so constants and   *)
(* drivers cannot drift apart.                                               *)
EXTENDS ErgoProc

TC(name, id, state, claim, agent) ==
  [name |-> name, mode |-> "json", id |-> id, title |-> IF name = "new_task" THEN "N" ELSE ABSENT,
   body |-> ABSENT, epic |-> ABSENT, state |-> state, claim |-> claim, rsum |-> ABSENT, rpath |-> ABSENT,
   rpathok |-> FALSE, rclean |-> ABSENT, agent |-> agent, newids |-> <<"i9">>]
Claim(a)        == [name |-> "claim", mode |-> "json", epic |-> "", agent |-> a]
ClaimIn(e, a)   == [name |-> "claim", mode |-> "json", epic |-> e, agent |-> a]
ClaimId(i, a)   == [name |-> "claim_id", mode |-> "json", id |-> i, agent |-> a]
SeqC(ids)       == [name |-> "sequence", mode |-> "json", ids |-> ids]
SeqRm(a, b)     == [name |-> "sequence_rm", mode |-> "json", a |-> a, b |-> b]
Prune           == [name |-> "prune", mode |-> "json", yes |-> TRUE]
Compact         == [name |-> "compact", mode |-> "json", again |-> FALSE]
NewTask         == TC("new_task", "", ABSENT, ABSENT, "")
NewTaskIn(e)    == [TC("new_task", "", ABSENT, ABSENT, "") EXCEPT !.epic = e]
NewTaskClaim(a) == TC("new_task", "", ABSENT, a, a)
SetState(i, s, a) == TC("set", i, s, ABSENT, a)
SetTitle(i, t)    == [TC("set", i, ABSENT, ABSENT, "") EXCEPT !.title = t]
PlanAB == [name |-> "plan", mode |-> "json", newids |-> <<"i7", "i8", "i9">>,
           doc |-> [title |-> "P", body |-> ABSENT,
                    tasks |-> <<[title |-> "a", body |-> ABSENT, after |-> <<>>],
                                [title |-> "b", body |-> ABSENT, after |-> <<"a">>]>>]]

\* stores
L_two  == <<EvNew("task", "i1", "", "todo", "T1", "", 1), EvNew("task", "i2", "", "todo", "T2", "", 2)>>
L_epic == <<EvNew("epic", "i1", "", "todo", "E1", "", 1), EvNew("task", "i2", "i1", "todo", "T2", "", 2),
            EvNew("task", "i3", "", "todo", "T3", "", 3)>>
L_done == <<EvNew("task", "i1", "", "todo", "T1", "", 1), EvNew("task", "i2", "", "todo", "T2", "", 2),
            EvState("i1", "done", 3)>>
L_one  == <<EvNew("task", "i1", "", "todo", "T1", "", 1)>>
L_manydone == [k \in 1..11 |-> EvNew("task", "i" \o ToString(k), "", "todo", "T" \o ToString(k), "", k)]
              \o [k \in 1..10 |-> EvState("i" \o ToString(k), IF k % 2 = 0 THEN "done" ELSE "canceled", 11 + k)]
L_hist == <<EvNew("task", "i1", "", "todo", "T1", "", 1), EvTitle("i1", "T1b", 2), EvTitle("i1", "T1c", 3),
            EvClaim("i1", "a1", 4), EvState("i1", "doing", 4), EvState("i1", "done", 5), EvUnclaim("i1", 5),
            EvNew("task", "i2", "", "todo", "T2", "", 6), EvBody("i2", "b1", 7), EvBody("i2", "b2", 8)>>
L_closedepic == <<EvNew("epic", "i1", "", "todo", "E1", "", 1), EvNew("task", "i2", "i1", "todo", "T2", "", 2),
                  EvNew("task", "i3", "i1", "todo", "T3", "", 3), EvNew("task", "i4", "", "todo", "T4", "", 4),
                  EvState("i2", "done", 5), EvState("i3", "canceled", 6)>>
\* epic i2 waits for epic i1, whose only open task (i3) was MOVED into it after creation;
\* i5 was moved out of i2 and is free
L_moved == <<EvNew("epic", "i1", "", "todo", "E1", "", 1), EvNew("epic", "i2", "", "todo", "E2", "", 2),
             EvNew("task", "i3", "", "todo", "T3", "", 3), EvNew("task", "i4", "i2", "todo", "T4", "", 4),
             EvNew("task", "i5", "i2", "todo", "T5", "", 5),
             EvLink("link", "i2", "i1", 6), EvEpic("i3", "i1", 7), EvEpic("i5", "", 8)>>
L_emptyepic == <<EvNew("epic", "i1", "", "todo", "E1", "", 1), EvNew("task", "i2", "", "todo", "T2", "", 2)>>
L_empty == <<>>
\* a multi-megabyte log ("BIG" is expanded by the driver into a 6 MB body)
L_big  == <<EvNew("task", "i1", "", "todo", "T1", "BIG", 1), EvNew("task", "i2", "", "todo", "T2", "", 2)>>
\* non-ASCII text, so that a write cut short can end inside a multi-byte character
NewTaskUni == [TC("new_task", "", ABSENT, ABSENT, "") EXCEPT !.title = "UNI"]

S(name, init, cmds, readers) == [name |-> name, init |-> init, cmds |-> cmds, readers |-> readers, nolock |-> FALSE,
                                 legacy |-> FALSE, rkind |-> "list", rid |-> "", nolog |-> FALSE]
SN(name, init, cmds, readers) == [S(name, init, cmds, readers) EXCEPT !.nolock = TRUE]
NoLog(s) == [s EXCEPT !.nolog = TRUE]                                  \* .ergo exists, the log file does not
InitCmd == [name |-> "init", mode |-> "json"]
Legacy(s) == [s EXCEPT !.legacy = TRUE, !.name = @ \o "-legacy"]     \* the store holds only events.jsonl
ShowEpic(s, e) == [s EXCEPT !.rkind = "show", !.rid = e, !.name = @ \o "-show"]
P2(a, b) == ("p1" :> a) @@ ("p2" :> b)
P3(a, b, c) == ("p1" :> a) @@ ("p2" :> b) @@ ("p3" :> c)
P1(a) == ("p1" :> a)

ClaimScenarios == {
  S("claim2-two",  L_two,  P2(Claim("a1"), Claim("a2")), {}),
  S("claim2-one",  L_one,  P2(Claim("a1"), Claim("a2")), {}),
  S("claim3-two",  L_two,  P3(Claim("a1"), Claim("a2"), Claim("a3")), {}),
  S("claim2-epic", L_epic, P2(ClaimIn("i1", "a1"), Claim("a2")), {}),
  S("claim2-epic2", L_epic, P2(ClaimIn("i1", "a1"), ClaimIn("i1", "a2")), {}),
  SN("claim2-nolock", L_two, P2(Claim("a1"), Claim("a2")), {}),
  S("claim2-big",  L_big,  P2(Claim("a1"), Claim("a2")), {}),
  S("claim-reopen", L_done, P2(Claim("a1"), SetState("i1", "todo", "")), {}),
  \* a whole-log rewrite between two claimers (whatever it does to the files in
  \* .ergo, the two must still exclude each other)
  S("claim-compact-claim", L_done, P3(Claim("a1"), Compact, Claim("a2")), {}),
  S("claim2-moved", L_moved, P2(ClaimIn("i2", "a1"), Claim("a2")), {}),
  S("claim2-moved-any", L_moved, P2(Claim("a1"), Claim("a2")), {})
}

PairScenarios == {
  S("new-new",       L_one,  P2(NewTask, NewTask), {}),
  S("newclaim-claim", L_one, P2(NewTaskClaim("a1"), Claim("a2")), {}),
  S("set-claim",     L_two,  P2(SetState("i1", "done", ""), Claim("a2")), {}),
  S("set-set",       L_two,  P2(SetState("i1", "done", ""), SetState("i1", "canceled", "")), {}),
  S("claimid-claim", L_two,  P2(ClaimId("i1", "a1"), Claim("a2")), {}),
  S("seq-seqrev",    L_two,  P2(SeqC(<<"i1", "i2">>), SeqC(<<"i2", "i1">>)), {}),
  S("seq-rm",        L_two,  P2(SeqC(<<"i1", "i2">>), SeqRm("i1", "i2")), {}),
  S("chain-seq",     L_epic, P2(SeqC(<<"i2", "i3">>), SeqC(<<"i3", "i2">>)), {}),
  S("prune-reopen",  L_done, P2(Prune, SetState("i1", "todo", "")), {}),
  S("prune-prune",   L_done, P2(Prune, Prune), {}),
  S("compact-set",   L_two,  P2(Compact, SetState("i1", "done", "")), {}),
  S("compact-claim", L_done, P2(Compact, Claim("a1")), {}),
  S("plan-new",      L_one,  P2(PlanAB, NewTask), {}),
  S("plan-compact",  L_done, P2(PlanAB, Compact), {}),
  SN("new-set-nolock", L_two, P2(NewTask, SetState("i1", "done", "")), {}),
  SN("claimid-claim-nolock", L_two, P2(ClaimId("i1", "a1"), Claim("a2")), {}),
  S("badset-new",    L_done, P2(SetState("i1", "doing", "a1"), NewTask), {}),
  S("badseq-new",    L_two,  P2(SeqC(<<"i1", "i2", "zz">>), NewTask), {}),
  S("prune-setdone", L_done, P2(Prune, SetState("i2", "done", "")), {}),
  S("prune-newchild", L_emptyepic, P2(Prune, NewTaskIn("i1")), {}),
  \* a task created closed is pruned right after its creator let go of the lock
  S("prune-newdone", L_done, P2(Prune, TC("new_task", "", "done", ABSENT, "")), {}),
  \* three different commands at once
  S("compact-prunedry-claim", L_done, P3(Compact, [name |-> "prune_dry", mode |-> "json", yes |-> FALSE], Claim("a1")), {}),
  S("plan-compact-new", L_hist, P3(PlanAB, Compact, NewTask), {}),
  S("compact-new",   L_done, P2(Compact, NewTask), {}),
  Legacy(S("compact-set", L_two, P2(Compact, SetState("i1", "done", "")), {})),
  Legacy(S("compact-new", L_done, P2(Compact, NewTask), {})),
  Legacy(S("plan-set", L_two, P2(PlanAB, SetState("i1", "done", "")), {})),
  NoLog(S("init-new", L_empty, P2(InitCmd, NewTask), {})),
  NoLog(S("init-plan", L_empty, P2(InitCmd, PlanAB), {})),
  S("init-set", L_two, P2(InitCmd, SetState("i1", "done", "")), {}),
  \* `init` run again on legacy stores (only events.jsonl: with items, and still empty)
  \* while a writer that has already chosen its log file waits for the lock
  Legacy(S("init-set", L_two, P2(InitCmd, SetState("i1", "done", "")), {})),
  Legacy(S("init-new-empty", L_empty, P2(InitCmd, NewTask), {})),
  S("claimid-setdone", L_two, P2(ClaimId("i1", "a1"), SetState("i1", "done", "")), {}),
  S("claimid-claimid", L_two, P2(ClaimId("i1", "a1"), ClaimId("i1", "a2")), {}),
  S("setdoing-setdone", L_two, P2(SetState("i1", "doing", "a1"), SetState("i1", "canceled", "")), {})
}

\* subsets of the menu, for the properties whose concurrent half they exercise
SeqScenarios   == {x \in PairScenarios : x.name \in {"seq-seqrev", "chain-seq", "seq-rm"}}
PruneScenarios == {x \in PairScenarios : x.name \in {"prune-reopen", "prune-prune", "prune-setdone", "prune-newchild", "prune-newdone"}}
StateScenarios == {x \in PairScenarios : x.name \in {"claimid-setdone", "claimid-claimid", "setdoing-setdone", "set-set", "claimid-claim", "set-claim"}}
FailScenarios  == {x \in PairScenarios : x.name \in {"badset-new", "badseq-new", "claimid-claim", "set-set"}}

ReaderScenarios == {
  S("r-new",     L_one,  P1(NewTask), {"r1"}),
  S("r-claim",   L_two,  P1(Claim("a1")), {"r1"}),
  S("r-prune",   L_done, P1(Prune), {"r1"}),
  S("r-compact", L_done, P1(Compact), {"r1"}),
  S("r-plan",    L_one,  P1(PlanAB), {"r1"}),
  Legacy(S("r-compact", L_done, P1(Compact), {"r1"})),
  Legacy(S("r-new",     L_one,  P1(NewTask), {"r1"})),
  Legacy(S("r-plan",    L_one,  P1(PlanAB), {"r1"})),
  ShowEpic(S("r-retitle-child", L_epic, P2(SetTitle("i1", "E1 renamed"), NewTaskIn("i1")), {"r1"}), "i1"),
  ShowEpic(S("r-compact", L_epic, P1(Compact), {"r1"}), "i1")
}

CrashScenarios == {
  S("k-new",     L_one,  P1(NewTask), {}),
  S("k-newclaim", L_one, P1(NewTaskClaim("a1")), {}),
  S("k-claim",   L_two,  P1(Claim("a1")), {}),
  S("k-set",     L_two,  P1(TC("set", "i1", "doing", "a1", "a1")), {}),
  S("k-prune",   <<EvNew("task", "i1", "", "todo", "T1", "", 1), EvNew("task", "i2", "", "todo", "T2", "", 2),
                   EvState("i1", "done", 3), EvState("i2", "canceled", 4)>>, P1(Prune), {}),
  S("k-compact", L_done, P1(Compact), {}),
  \* a log with superseded history (compaction shrinks it) and one with closed tasks inside an epic
  S("k-compact-hist", L_hist, P1(Compact), {}),
  S("k-prune-epic", L_closedepic, P1(Prune), {}),
  \* a prune of many items (more tombstones than any fixed-size batch a writer might use)
  S("k-prune-many", L_manydone, P1(Prune), {}),
  S("k-plan-hist", L_hist, P1(PlanAB), {}),
  S("k-plan",    L_one,  P1(PlanAB), {}),
  S("k-plan-empty", L_empty, P1(PlanAB), {}),
  S("k-new-uni", L_one, P1(NewTaskUni), {}),
  S("k-set-big", L_two, P1([TC("set", "i1", "done", ABSENT, "") EXCEPT !.title = "renamed", !.body = "BIG"]), {}),
  S("k-newclaim-big", L_one, P1([NewTaskClaim("a1") EXCEPT !.body = "BIG"]), {}),
  S("k-compact-big", L_big, P1(Compact), {}),
  S("k-plan-big", L_big, P1(PlanAB), {}),
  S("k-settitle-uni", L_two, P1(SetTitle("i1", "UNI")), {}),
  S("k-seq",     L_epic, P1(SeqC(<<"i2", "i3">>)), {}),
  S("k-set3",    L_two,  P1([TC("set", "i1", "done", ABSENT, "") EXCEPT !.title = "renamed", !.body = "text"]), {})
}

\* two writers and up to two kills (MaxCrashes = 2): the second writer meets what the
\* first left behind (a torn tail, a stale temp file) and may die while repairing it
CrashScenarios2 == {
  S("k2-new-new",     L_one,  P2(NewTask, NewTask), {}),
  S("k2-new-compact", L_hist, P2(NewTask, Compact), {}),
  S("k2-set-plan",    L_two,  P2(SetState("i1", "done", ""), PlanAB), {})
}

AllScenarios == ClaimScenarios \cup PairScenarios \cup ReaderScenarios \cup CrashScenarios \cup CrashScenarios2
ScenarioTable == PrintT("@SC " \o ToJson([s \in {x.name : x \in AllScenarios} |->
                     LET x == CHOOSE y \in AllScenarios : y.name = s IN
                       [init |-> x.init, cmds |-> x.cmds, readers |-> x.readers, nolock |-> x.nolock,
                        legacy |-> x.legacy, rkind |-> x.rkind, rid |-> x.rid, nolog |-> x.nolog]]))
ASSUME ScenarioTable
=============================================================================
