------------------------------- MODULE ErgoSeq -------------------------------
(***************************************************************************)
(* Layers G + L: ergo driven by ONE client at a time.  The state is the    *)
(* event log (plus logical time and bookkeeping); every step is one CLI    *)
(* command run to completion (ErgoCmds!Outcomes).  The graph is never a    *)
(* variable: it is Replay(log), so "what is shown is a function of the     *)
(* log" holds by construction in the design and is what the trace          *)
(* specification checks of the code.                                       *)
(*                                                                         *)
(* The listed properties are checked as action properties: each step is    *)
(* packaged as the same record o = [pre, cmd, exit, reply, post, ...] the  *)
(* harness records from the real binary, and the clauses of ErgoProps are  *)
(* evaluated on it.                                                        *)
(*                                                                         *)
(* The VIEW identifies states whose replayed graph is the same, so the     *)
(* state space is that of graphs while `log` and `hist` remain witness     *)
(* histories; with EMIT on, TLC prints for every distinct state one        *)
(* witness history and the full command alphabet at that state, which the  *)
(* Go harness executes against the real binary (every command from every   *)
(* reachable state).                                                       *)
(***************************************************************************)
EXTENDS ErgoCmds, Json, Randomization

CONSTANTS
  MaxTasks, MaxEpics,     \* live+pruned items ever created, per kind
  MaxDepth,               \* commands per history
  Agents,                 \* agent names
  CmdNames,               \* which commands are in the alphabet
  StateArgs,              \* values tried for the state field (besides "not given")
  ClaimArgs,              \* values tried for the claim field (besides "not given")
  Extras,                 \* extra behaviours: "badepic", "badid", "text", "results", "chains", "flags"
  PlanDocs,               \* menu of plan documents
  ViewMode,               \* "graph" | "timed" | "log"
  Emit,                   \* "none" | "states" | "leaves"
  SimSample,              \* 0: every command of the alphabet is a successor; k > 0 (simulation
                          \* runs only): k commands drawn at random, which keeps walks cheap
  CraftMode, CraftN, CraftTasks, CraftEpics
                          \* initial stores.  "empty": the empty store; "random": CraftN stores
                          \* drawn at random from all crafted shapes over CraftTasks tasks and
                          \* CraftEpics epics (logs that commands cannot produce are included)

VARIABLES log, now, nid, gone, last, hist, base
vars == <<log, now, nid, gone, last, hist, base>>

Props == INSTANCE ErgoProps

Id(k) == "i" \o ToString(k)
G == Replay(log)

(***************************************************************************)
(* The command alphabet at a state.                                        *)
(***************************************************************************)
Opt(S) == {ABSENT} \cup S
NTasksEver == Cardinality({k \in 1..nid : TRUE})   \* = nid (ids are never reused in the ideal design)
CountKind(g, kind) == Cardinality({i \in Live(g) : g.items[i].kind = kind})

Base(name) == [name |-> name, mode |-> "json"]
TaskCmd(name, id, title, body, epic, state, claim, rsum, rpath, ok, agent, newids) ==
  [name |-> name, mode |-> "json", id |-> id, title |-> title, body |-> body, epic |-> epic,
   state |-> state, claim |-> claim, rsum |-> rsum, rpath |-> rpath, rpathok |-> ok,
   rclean |-> rpath, agent |-> agent, newids |-> newids]

IdArgs(g) == Live(g) \cup (IF "badid" \in Extras THEN gone \cup {"zz"} ELSE {})
\* ("lc:<id>" / "pad:<id>": the id of a live epic spelled in lower case / with a
\* trailing blank - not the id of anything)
EpicArgs(g) == EpicsOf(g) \cup
               (IF "badepic" \in Extras
                  THEN gone \cup {"zz"} \cup TasksOf(g) \cup {"lc:" \o e : e \in EpicsOf(g)} \cup {"pad:" \o e : e \in EpicsOf(g)}
                  ELSE {})
AgentArgs == Agents \cup {""}

CanCreate(kind) == /\ nid < MaxTasks + MaxEpics
                   /\ Cardinality({k \in 1..Len(hist) : hist[k].name = (IF kind = "task" THEN "new_task" ELSE "new_epic")
                                                         /\ k \in DOMAIN hist}) < (IF kind = "task" THEN MaxTasks ELSE MaxEpics)

\* input modes: JSON on stdin; flags only; --body-stdin (body on stdin, the rest as flags)
ModeArgs == IF "modes" \in Extras THEN {"json", "flags", "bodystdin"} ELSE {"json"}
WithMode(c, m) == [c EXCEPT !.mode = m, !.body = IF m = "bodystdin" THEN "body text" ELSE @]

NewTaskCmds(g) ==
  IF "new_task" \notin CmdNames \/ ~CanCreate("task") THEN {}
  ELSE {WithMode(TaskCmd("new_task", "", "T" \o ToString(nid + 1), ABSENT, e, s, c, ABSENT, ABSENT, FALSE, a, <<Id(nid + 1)>>), m) :
          e \in Opt(EpicArgs(g)), s \in Opt(StateArgs), c \in Opt(ClaimArgs),
          a \in (IF StateArgs = {} /\ ClaimArgs = {} THEN {""} ELSE AgentArgs), m \in ModeArgs}

NewEpicCmds(g) ==
  IF "new_epic" \notin CmdNames \/ ~CanCreate("epic") THEN {}
  ELSE {[name |-> "new_epic", mode |-> "json", title |-> "E" \o ToString(nid + 1), body |-> ABSENT,
         newids |-> <<Id(nid + 1)>>]}

SetCmds(g) ==
  IF "set" \notin CmdNames THEN {}
  ELSE {c \in {WithMode(TaskCmd("set", i, t, ABSENT, e, s, cl, ABSENT, ABSENT, FALSE, a, <<>>), m) :
                 i \in IdArgs(g), m \in ModeArgs,
                 t \in (IF "text" \in Extras THEN {ABSENT, "T9", " ", "UBLANK"} ELSE {ABSENT}),
                 e \in (IF "set_epic" \in Extras THEN Opt(EpicArgs(g) \cup {""}) ELSE {ABSENT}),
                 s \in Opt(StateArgs), cl \in Opt(ClaimArgs),
                 a \in (IF StateArgs = {} /\ ClaimArgs = {} THEN {""} ELSE AgentArgs)} :
            \* at least one field
            c.title # ABSENT \/ c.epic # ABSENT \/ c.state # ABSENT \/ c.claim # ABSENT \/ c.mode = "bodystdin"}

ResultCmds(g) ==
  IF "results" \notin Extras THEN {}
  ELSE {[TaskCmd("set", i, ABSENT, ABSENT, ABSENT, s, ABSENT, "sum" \o ToString(now), p, PathOK(p), "", <<>>)
           EXCEPT !.rclean = PathClean(p)] :
          i \in IdArgs(g),
          p \in (IF "paths" \in Extras THEN DOMAIN ResultPaths ELSE {"r1.txt", "r2.txt", "missing.txt", "../out.txt", ".ergo/lock"}),
          s \in (IF StateArgs = {} THEN {ABSENT} ELSE {ABSENT, "done", "doing"})}

ClaimCmds(g) ==
  (IF "claim_id" \in CmdNames
     THEN {[name |-> "claim_id", mode |-> "json", id |-> i, agent |-> a] : i \in IdArgs(g), a \in AgentArgs}
     ELSE {})
  \cup
  (IF "claim" \in CmdNames
     THEN {[name |-> "claim", mode |-> "json", epic |-> e, agent |-> a] :
             e \in {""} \cup (IF "claim_epic" \in Extras THEN EpicArgs(g) ELSE {}), a \in Agents}
     ELSE {})

Chains(g) ==
  LET I == IdArgs(g) IN
    {<<a, b>> : a \in I, b \in I}
    \cup (IF "chains" \in Extras THEN {<<a, b, c>> : a \in I, b \in I, c \in I} ELSE {})
SeqCmds(g) ==
  (IF "sequence" \in CmdNames
     THEN {[name |-> "sequence", mode |-> "json", ids |-> ch] : ch \in Chains(g)} ELSE {})
  \cup
  (IF "sequence_rm" \in CmdNames
     THEN {[name |-> "sequence_rm", mode |-> "json", a |-> a, b |-> b] : a \in IdArgs(g), b \in IdArgs(g)}
     ELSE {})

PlanIdsNeeded(doc) == 1 + Len(doc.tasks)
MiscCmds(g) ==
  (IF "prune" \in CmdNames THEN {[name |-> "prune", mode |-> "json", yes |-> TRUE]} ELSE {})
  \cup (IF "prune_dry" \in CmdNames THEN {[name |-> "prune_dry", mode |-> "json", yes |-> FALSE]} ELSE {})
  \cup (IF "compact" \in CmdNames
          THEN {[name |-> "compact", mode |-> "json",
                 again |-> (last.cmd.name = "compact" /\ last.exit = 0)]} ELSE {})
  \cup (IF "plan" \in CmdNames
          THEN {[name |-> "plan", mode |-> "json", doc |-> d,
                 newids |-> [k \in 1..PlanIdsNeeded(d) |-> Id(nid + k)]] :
                  d \in {x \in PlanDocs : nid + PlanIdsNeeded(x) <= MaxTasks + MaxEpics
                                          \/ ~PlanValid(x)}}
          ELSE {})
  \cup (IF "list_ready" \in CmdNames
          THEN {[name |-> "list_ready", mode |-> "json", epic |-> ""]} ELSE {})
  \cup (IF "reads" \in CmdNames
          THEN {[name |-> n, mode |-> "json"] : n \in {"list", "list_all", "list_epics"}}
               \cup {[name |-> "list_epic", mode |-> "json", epic |-> e] : e \in EpicArgs(g)}
               \cup {[name |-> "show", mode |-> "json", id |-> i] : i \in IdArgs(g)}
          ELSE {})

Alphabet0(g) == NewTaskCmds(g) \cup NewEpicCmds(g) \cup SetCmds(g) \cup ResultCmds(g)
               \cup ClaimCmds(g) \cup SeqCmds(g) \cup MiscCmds(g)
\* "trailing": the JSON document of a stdin command is followed by something
TrailCmds(g) ==
  IF "trailing" \notin Extras THEN {}
  ELSE {("trail" :> t) @@ c : t \in TrailForms,
          c \in {x \in Alphabet0(g) : x.mode = "json" /\ x.name \in {"new_task", "new_epic", "set", "plan"}
                                       /\ (x.name = "plan" => PlanValid(x.doc))}}
Alphabet(g) == Alphabet0(g) \cup TrailCmds(g)

(***************************************************************************)
(* Behaviour.                                                              *)
(***************************************************************************)
NoCmd == [name |-> "init", mode |-> "json"]

(***************************************************************************)
(* Crafted initial stores: every combination of kind, state, claim (legal  *)
(* or not), epic membership, task dependencies and epic dependencies over  *)
(* CraftTasks tasks and CraftEpics epics, written as a log by hand: the  *)
(* epics first, then the tasks, then claims, states and links.  TLC draws  *)
(* CraftN of them at random (seeded by -seed).                            *)
(***************************************************************************)
CE == {Id(k) : k \in 1..CraftEpics}
CT == {Id(k) : k \in (CraftEpics + 1)..(CraftEpics + CraftTasks)}
StateClaims == States \X {"", "a1"}
CraftLog(sc, ep, deps, edeps) ==
  LET ne == CraftEpics
      nt == CraftTasks
      claimed == {t \in CT : sc[t][2] # ""}
      moved   == {t \in CT : sc[t][1] # "todo"}
      cs == SetToSeq(claimed)
      ms == SetToSeq(moved)
      ds == SetToSeq(deps \cup edeps)
  IN [k \in 1..ne |-> EvNew("epic", Id(k), "", "todo", "E" \o ToString(k), "", k)]
     \o [k \in 1..nt |-> EvNew("task", Id(ne + k), ep[Id(ne + k)], "todo", "T" \o ToString(ne + k), "", ne + k)]
     \o [k \in 1..Len(ms) |-> EvState(ms[k], sc[ms[k]][1], ne + nt + k)]
     \o [k \in 1..Len(cs) |-> EvClaim(cs[k], sc[cs[k]][2], ne + nt + Len(ms) + k)]
     \o [k \in 1..Len(ds) |-> EvLink("link", ds[k][1], ds[k][2], 0)]
TaskPairs == {p \in CT \X CT : p[1] # p[2]}
EpicPairs == {p \in CE \X CE : p[1] # p[2]}
\* CraftMode "legal": only (state, claimant) pairs the claim rule admits - stores ergo
\* itself could have produced
LegalStateClaims == {p \in StateClaims : ClaimRuleOK(p[1], p[2])}
RandomCraft(k) ==     \* (the parameter only defeats TLC's caching of constant definitions)
  LET sc    == RandomElement([CT -> IF CraftMode = "legal" THEN LegalStateClaims ELSE StateClaims])
      ep    == RandomElement([CT -> {""} \cup CE])
      d0    == RandomElement(SUBSET TaskPairs)
      deps  == IF Acyclic(d0) THEN d0 ELSE {}
      e0    == RandomElement(SUBSET EpicPairs)
      edeps == IF Acyclic(e0) THEN e0 ELSE {}
  IN CraftLog(sc, ep, deps, edeps)

\* legacy stores: untitled items whose title is derived from the body at read
\* time, optionally with later body/state events
LegacyCraft(k) ==
  LET bodies == DOMAIN LegacyTable \cup {"", "plain body"}
      b1 == RandomElement(bodies)
      b2 == RandomElement(bodies)
      t2 == RandomElement({"", "Titled"})
      more == RandomElement(SUBSET {1, 2, 3, 4})
  IN <<EvNew("epic", Id(1), "", "todo", "", b1, 1), EvNew("task", Id(2), Id(1), "todo", t2, b2, 2)>>
     \o (IF 1 \in more THEN <<EvBody(Id(2), RandomElement(bodies), 3)>> ELSE <<>>)
     \o (IF 2 \in more THEN <<EvState(Id(2), "done", 4)>> ELSE <<>>)
     \o (IF 3 \in more THEN <<EvTitle(Id(1), "Named later", 5)>> ELSE <<>>)
     \o (IF 4 \in more THEN <<EvBody(Id(1), RandomElement(bodies), 6)>> ELSE <<>>)

\* hand-merged logs: the events of a pruned item P (create, updates, the links that
\* mention it, its tombstone) in EVERY order, among the events of two live tasks;
\* whatever the order, P is gone and so are its edges (the tombstone wins)
MergedP == <<EvNew("task", Id(3), "", "todo", "P", "", 3), EvState(Id(3), "done", 4), EvTitle(Id(3), "P renamed", 5),
             EvLink("link", Id(1), Id(3), 0), EvLink("link", Id(3), Id(2), 0), EvTomb(Id(3), 6)>>
MergedCraft(k) ==
  LET perm == RandomElement(Permutations(1..Len(MergedP)))
      tail == RandomElement({<<>>, <<EvLink("link", Id(2), Id(1), 0)>>, <<EvState(Id(1), "done", 7)>>,
                             <<EvLink("link", Id(2), Id(3), 0)>>, <<EvBody(Id(3), "late", 8)>>})
  IN <<EvNew("task", Id(1), "", "todo", "X", "", 1), EvNew("task", Id(2), "", "todo", "Y", "", 2)>>
     \o [i \in 1..Len(MergedP) |-> MergedP[perm[i]]] \o tail

Init == /\ IF CraftMode = "empty" THEN base = <<>>
           ELSE IF CraftMode = "legacy" THEN \E k \in 1..CraftN : base = LegacyCraft(k)
           ELSE IF CraftMode = "merged" THEN \E k \in 1..CraftN : base = MergedCraft(k)
           ELSE \E k \in 1..CraftN : base = RandomCraft(k)
        /\ log = base
        /\ now = IF base = <<>> THEN 0 ELSE Len(base) + 2
        /\ nid = IF base = <<>> THEN 0 ELSE IF CraftMode = "legacy" THEN 2
                 ELSE IF CraftMode = "merged" THEN 3 ELSE CraftTasks + CraftEpics
        /\ gone = Replay(base).tomb
        /\ last = [cmd |-> NoCmd, exit |-> 0, reply |-> Reply0, logpre |-> <<>>, gonepre |-> {}]
        /\ hist = <<>>

CreatedIn(evs) == Cardinality({k \in 1..Len(evs) : evs[k].type \in {"new_task", "new_epic"}})

\* `prune_dry` is `prune` without --yes
Norm(c) == IF c.name = "prune_dry" THEN [c EXCEPT !.name = "prune"] ELSE c

Do(c) ==
  \E r \in Outcomes(log, now, Norm(c)) :
    /\ log' = r.log
    /\ now' = r.now
    /\ nid' = nid + (IF c.name = "compact" THEN 0 ELSE CreatedIn(SubSeq(r.log, Len(log) + 1, Len(r.log))))
    /\ gone' = gone \cup Replay(r.log).tomb
    /\ last' = [cmd |-> c, exit |-> r.exit, reply |-> r.reply, logpre |-> log, gonepre |-> gone]
    /\ hist' = Append(hist, c)
    /\ base' = base

Moves(g) == LET A == Alphabet(g) IN
              IF SimSample > 0 /\ Cardinality(A) > SimSample THEN RandomSubset(SimSample, A) ELSE A
Next == Len(hist) < MaxDepth /\ \E c \in Moves(G) : Do(c)

Spec == Init /\ [][Next]_vars

(***************************************************************************)
(* The step record, and the properties as action properties.               *)
(***************************************************************************)
Obs == [pre     |-> View(Replay(last'.logpre)),
        post    |-> View(Replay(log')),
        cmd     |-> last'.cmd,
        exit    |-> last'.exit,
        reply   |-> last'.reply,
        logpre  |-> last'.logpre,
        logpost |-> log',
        gone    |-> last'.gonepre,
        readable |-> TRUE, listshow |-> TRUE, faithful |-> TRUE, hidden |-> <<>>, rows |-> <<>>,
        out     |-> [json |-> TRUE, values |-> 1, trailing |-> FALSE, stderr |-> last'.exit # 0,
                     idshape |-> TRUE]]

Stepped == hist' # hist
Holds(P(_)) == Stepped => P(Obs)

P_C05 == [][Holds(Props!C05_invisible) /\ Holds(Props!C05_idempotent) /\ Holds(Props!C05_gone_stay)]_vars
P_C06 == [][/\ Holds(Props!C06_states) /\ Holds(Props!C06_claiminv) /\ Holds(Props!C06_epics)
            /\ Holds(Props!C06_illegal_refused) /\ Holds(Props!C06_legal_accepted)
            /\ Holds(Props!C06_lands) /\ Holds(Props!C06_untouched)]_vars
P_C07 == [][/\ Holds(Props!C07_acyclic) /\ Holds(Props!C07_noself) /\ Holds(Props!C07_samekind)
            /\ Holds(Props!C07_live) /\ Holds(Props!C07_mirror) /\ Holds(Props!C07_rm_exact)
            /\ Holds(Props!C07_add_exact) /\ Holds(Props!C07_bad_refused) /\ Holds(Props!C07_only_edges)]_vars
P_C08 == [][/\ Holds(Props!C08_flags) /\ Holds(Props!C08_readylist) /\ Holds(Props!C08_claim)
            /\ Holds(Props!C08_claim_effect)]_vars
P_C09 == [][/\ Holds(Props!C09_exact) /\ Holds(Props!C09_dryrun) /\ Holds(Props!C09_gone)
            /\ Holds(Props!C09_refused) /\ Holds(Props!C09_noreissue)]_vars
P_C10 == [][Holds(Props!C10_unchanged)]_vars
P_C11 == [][Holds(Props!C11_invalid_refused) /\ Holds(Props!C11_adds_exactly) /\ Holds(Props!C11_preserves)]_vars
P_C12 == [][Holds(Props!C12_function_of_log) /\ Holds(Props!C12_reads_pure) /\ Holds(Props!C12_history_grows)]_vars
P_C14 == [][Holds(Props!C14_ref) /\ Holds(Props!C14_visible) /\ Holds(Props!C14_epics_flat) /\ Holds(Props!C14_bad_refused)
            /\ Holds(Props!C14_compact_keeps)]_vars
P_C15 == [][Holds(Props!C15_progress) /\ Holds(Props!C15_waits) /\ Holds(Props!C15_claim)]_vars
P_C16 == [][Holds(Props!C16_one_value) /\ Holds(Props!C16_truth) /\ Holds(Props!C16_reads) /\ Holds(Props!C16_set_applied)]_vars
P_C20 == [][Holds(Props!C20_only_grow) /\ Holds(Props!C20_confined) /\ Holds(Props!C20_live_only)
            /\ Holds(Props!C20_faithful)]_vars

\* design-level facts about the specification itself
CodeReadyIsSpecReady ==            \* the code's predicates = the manual's words
  LET v == View(G) IN
    \A t \in TasksOf(G) : /\ IsReady(G, t) = Props!SpecReady(v, t)
                          /\ IsBlocked(G, t) = Props!SpecBlocked(v, t)
CodePruneIsSpecPrune == PruneTargets(G) = Props!SpecPruneSet(View(G))
CodeWaitsIsSpecWaits == Waits(G) = Props!VWaits(View(G))
ReplayNeverFails == G.err = ""
TypeOK == /\ nid <= MaxTasks + MaxEpics + 4
          /\ \A i \in Live(G) : G.items[i].state \in States

(***************************************************************************)
(* VIEW: states are identified by what replay yields.                      *)
(***************************************************************************)
Times(g) == {0}
            \cup UNION {{g.items[i].created, g.items[i].updated} : i \in Live(g)}
            \cup UNION {{g.items[i].results[k].ts : k \in 1..Len(g.items[i].results)} : i \in Live(g)}
            \cup UNION {{g.meta[i].created, g.meta[i].lState, g.meta[i].lClaim, g.meta[i].lTitle,
                         g.meta[i].lBody, g.meta[i].lEpic} : i \in Live(g)}
Rank(T, t) == Cardinality({x \in T : x < t})
TimedCore(g) ==
  LET T == Times(g) IN
   [i \in Live(g) |->
      [it |-> [g.items[i] EXCEPT !.created = Rank(T, @), !.updated = Rank(T, @),
                                 !.results = [k \in 1..Len(@) |-> [@[k] EXCEPT !.ts = Rank(T, @)]]],
       m  |-> [g.meta[i] EXCEPT !.created = Rank(T, @), !.lState = Rank(T, @), !.lClaim = Rank(T, @),
                                !.lTitle = Rank(T, @), !.lBody = Rank(T, @), !.lEpic = Rank(T, @)]]]
GraphCore(g) ==
  [i \in Live(g) |->
     [kind |-> g.items[i].kind, state |-> g.items[i].state, claim |-> g.items[i].claim,
      epic |-> g.items[i].epic, title |-> g.items[i].title,
      nres |-> Len(g.items[i].results),
      older |-> Cardinality({j \in Live(g) : g.items[j].created < g.items[i].created})]]

StateView ==
  CASE ViewMode = "graph" -> <<GraphCore(G), G.deps, G.tomb, gone, nid,
                               IF "compact" \in CmdNames THEN last.cmd.name = "compact" ELSE FALSE>>
    [] ViewMode = "timed" -> <<TimedCore(G), G.deps, G.tomb, gone, nid, last.cmd.name = "compact">>
    [] OTHER              -> <<log, gone, nid>>

(***************************************************************************)
(* Emission for the harness (role 2).                                      *)
(***************************************************************************)
NonString == {"newids", "ids", "doc", "rpathok", "yes", "again"}
Present(c) == [k \in {f \in DOMAIN c : f \in NonString \/ c[f] # ABSENT} |-> c[k]]
EmitLine == ToJson([base  |-> base,
                    hist  |-> [k \in 1..Len(hist) |-> Present(hist[k])],
                    alpha |-> IF Len(hist) < MaxDepth \/ Emit = "allstates"
                                THEN {Present(c) : c \in Alphabet(G)} ELSE {}])
EmitInv ==
  CASE Emit \in {"states", "allstates"} -> PrintT("@ST " \o EmitLine)
    [] Emit = "leaves" -> (Len(hist) = MaxDepth => PrintT("@ST " \o EmitLine))
    [] Emit = "roots"  -> (hist = <<>> => PrintT("@ST " \o EmitLine))
    [] OTHER -> TRUE
=============================================================================
