------------------------------ MODULE ErgoProps ------------------------------
(***************************************************************************)
(* The listed properties, each stated ONCE as named clauses over a step    *)
(* record                                                                  *)
(*     o = [pre, cmd, exit, reply, post, logpre, logpost, gone, out]       *)
(* where pre/post are Views (what list/show --json expose, see             *)
(* ErgoOps!View), logpre/logpost the abstract event sequences, `gone` the  *)
(* ids pruned at any earlier time, `out` facts about raw output.           *)
(*                                                                         *)
(* The clauses are written from the property text and the manuals, not     *)
(* from the code: notions a property defines in its own words (ready,      *)
(* blocked, "exactly the finished work", progress) are transcribed here as *)
(* Spec* operators over Views.  The same operators are used                *)
(*   - as action properties / invariants when TLC model-checks the design  *)
(*     (ErgoSeq: o built from the spec's own step), and                    *)
(*   - as the verdict formulas when TLC judges steps OBSERVED from the     *)
(*     real binary (ErgoTrace).                                            *)
(* A clause says no more than its property: where the property leaves the  *)
(* response free, so does the clause.                                      *)
(***************************************************************************)
EXTENDS ErgoOps

VTasks(v) == {i \in DOMAIN v : v[i].kind = "task"}
VEpics(v) == {i \in DOMAIN v : v[i].kind = "epic"}
VEdges(v) == UNION {{<<i, d>> : d \in v[i].deps} : i \in DOMAIN v}
VChildren(v, e) == {t \in VTasks(v) : v[t].epic = e}

\* same observable data, ignoring the derived ready/blocked flags
Core(x) == [x EXCEPT !.ready = FALSE, !.blocked = FALSE]
SameBut(v1, v2, ids) ==            \* views agree on every id outside `ids`
  /\ DOMAIN v1 \ ids = DOMAIN v2 \ ids
  /\ \A i \in DOMAIN v1 \ ids : v1[i] = v2[i]

IsRead(c)  == c.name \in {"list", "list_all", "list_epic", "list_ready", "list_epics", "show", "where", "prune_dry", "quickstart"}
Failed(o)  == o.exit # 0
Targets(c) == IF c.name \in {"set", "claim_id", "show"} THEN {c.id}
              ELSE IF c.name = "sequence" THEN {c.ids[k] : k \in 1..Len(c.ids)}
              ELSE IF c.name = "sequence_rm" THEN {c.a, c.b}
              ELSE {}

(***************************************************************************)
(* C08 - ready/blocked as the manual words them.                           *)
(***************************************************************************)
SpecEpicFinished(v, e) == \A t \in VChildren(v, e) : Closed(v[t].state)
SpecReady(v, t) ==
  /\ v[t].state = "todo" /\ v[t].claim = ""
  /\ \A d \in v[t].deps : d \in DOMAIN v => Closed(v[d].state)       \* done, canceled (or pruned: not listed)
  /\ v[t].epic \in DOMAIN v =>
        \A e2 \in v[v[t].epic].deps : e2 \in VEpics(v) => SpecEpicFinished(v, e2)
SpecBlocked(v, t) ==
  \/ v[t].state = "blocked"
  \/ v[t].state = "todo" /\ v[t].claim = "" /\ ~SpecReady(v, t)
SpecReadySet(v, epicArg) ==
  {t \in VTasks(v) : SpecReady(v, t) /\ (epicArg = "" \/ v[t].epic = epicArg)}
SpecOldest(v, epicArg) ==
  {t \in SpecReadySet(v, epicArg) : \A u \in SpecReadySet(v, epicArg) : v[t].created <= v[u].created}

C08_flags(o) == \A t \in VTasks(o.post) :
                   /\ o.post[t].ready = SpecReady(o.post, t)
                   /\ o.post[t].blocked = SpecBlocked(o.post, t)
C08_readylist(o) == o.cmd.name = "list_ready" /\ o.exit = 0 =>
                      {o.reply.ids[k] : k \in 1..Len(o.reply.ids)} = SpecReadySet(o.pre, o.cmd.epic)
C08_claim(o) == o.cmd.name = "claim" /\ o.exit = 0 /\ o.cmd.agent # "" =>
                  IF SpecReadySet(o.pre, o.cmd.epic) = {}
                    THEN o.reply.status = "no_ready" /\ o.reply.id = ""
                    ELSE /\ o.reply.status # "no_ready"
                         /\ o.reply.id \in SpecOldest(o.pre, o.cmd.epic)
C08_claim_effect(o) == o.cmd.name = "claim" /\ o.exit = 0 /\ o.reply.id # "" =>
                         /\ o.reply.id \in VTasks(o.post)
                         /\ o.post[o.reply.id].state = "doing"
                         /\ o.post[o.reply.id].claim = o.cmd.agent

(***************************************************************************)
(* C06 - state machine and claim invariants.                               *)
(***************************************************************************)
\* flags cannot say "": there an empty value means "not given"
Fld0(c, x) == IF c.mode # "json" /\ x = "" THEN ABSENT ELSE x
\* the state a request asks a task to move to ("" = none)
WantState(c) ==
  IF c.name = "claim_id" THEN "doing"
  ELSE IF c.name \in {"set", "new_task"} THEN
         (IF Fld0(c, c.state) # ABSENT THEN c.state
          ELSE IF Fld0(c, c.claim) \notin {ABSENT, ""} THEN "doing" ELSE "")
  ELSE ""
C06_states(o) == \A t \in VTasks(o.post) : o.post[t].state \in States
\* step form: a task that breaks the claim rule after the step already did so,
\* identically, before it
C06_claiminv(o) == \A t \in VTasks(o.post) :
                     ~ClaimRuleOK(o.post[t].state, o.post[t].claim) =>
                        /\ t \in DOMAIN o.pre
                        /\ o.pre[t].state = o.post[t].state /\ o.pre[t].claim = o.post[t].claim
C06_epics(o) == \A e \in VEpics(o.post) : o.post[e].state = "todo" /\ o.post[e].claim = ""
\* a request whose target state the table forbids is refused
C06_illegal_refused(o) ==
  LET c == o.cmd
      from == IF c.name = "new_task" THEN "todo"
              ELSE IF c.id \in VTasks(o.pre) THEN o.pre[c.id].state ELSE ""
      to == WantState(c)
  IN (c.name \in {"set", "claim_id", "new_task"} /\ to \in States /\ from # ""
        /\ ~TransitionOK(from, to)) => Failed(o)
\* a pure state/claim request the table allows, with the claim rule satisfied
\* by the request itself, is accepted and lands in the requested state
C06_legal_accepted(o) ==
  LET c == o.cmd
      st == Fld0(c, c.state)
      cl == Fld0(c, c.claim)
      cur == o.pre[c.id]
      eff == IF Clears(st) THEN ""
             ELSE IF cl # ABSENT THEN cl
             ELSE IF cur.claim # "" THEN cur.claim
             ELSE IF Needs(st) THEN c.agent ELSE ""
  IN (c.name = "set" /\ c.mode = "json" /\ c.id \in VTasks(o.pre) /\ st \in States
        /\ c.title = ABSENT /\ c.body = ABSENT /\ c.epic = ABSENT /\ c.rsum = ABSENT /\ c.rpath = ABSENT
        /\ TransitionOK(cur.state, st) /\ ClaimRuleOK(st, eff) /\ ~(Needs(st) /\ cl = ""))
     => /\ o.exit = 0
        /\ c.id \in DOMAIN o.post
        /\ o.post[c.id].state = st
        /\ o.post[c.id].claim = eff
\* an accepted request leaves the task in the state it asked for
C06_lands(o) ==
  LET c == o.cmd to == WantState(c) IN
    (c.name \in {"set", "claim_id"} /\ o.exit = 0 /\ to \in States /\ c.id \in VTasks(o.post))
      => o.post[c.id].state = to
C06_untouched(o) == Failed(o) /\ o.cmd.name \in {"set", "claim_id"} /\ o.cmd.id \in DOMAIN o.pre
                      => o.cmd.id \in DOMAIN o.post /\ o.post[o.cmd.id] = o.pre[o.cmd.id]

(***************************************************************************)
(* C07 - the dependency graph.                                             *)
(***************************************************************************)
C07_acyclic(o)  == Acyclic(VEdges(o.post)) \/ ~Acyclic(VEdges(o.pre))
C07_noself(o)   == \A i \in DOMAIN o.post : i \notin o.post[i].deps
C07_samekind(o) == \A d \in VEdges(o.post) :
                      (d[1] \in DOMAIN o.post /\ d[2] \in DOMAIN o.post)
                         => o.post[d[1]].kind = o.post[d[2]].kind
C07_live(o)     == \A i \in DOMAIN o.post :
                      (o.post[i].deps \cup o.post[i].rdeps) \subseteq DOMAIN o.post
                      \/ (i \in DOMAIN o.pre /\ o.pre[i].deps = o.post[i].deps /\ o.pre[i].rdeps = o.post[i].rdeps
                          /\ DOMAIN o.pre = DOMAIN o.post)
C07_mirror(o)   == \A i \in DOMAIN o.post : \A j \in DOMAIN o.post :
                      (j \in o.post[i].deps) <=> (i \in o.post[j].rdeps)
C07_rm_exact(o) == o.cmd.name = "sequence_rm" /\ o.exit = 0 =>
                      VEdges(o.post) = VEdges(o.pre) \ {<<o.cmd.b, o.cmd.a>>}
C07_add_exact(o) == o.cmd.name = "sequence" /\ o.exit = 0 =>
                      VEdges(o.post) = VEdges(o.pre) \cup
                          {<<o.cmd.ids[k + 1], o.cmd.ids[k]>> : k \in 1..(Len(o.cmd.ids) - 1)}
\* a sequence request that would break the invariant is rejected
C07_bad_refused(o) ==
  LET c == o.cmd
      new == {<<c.ids[k + 1], c.ids[k]>> : k \in 1..(Len(c.ids) - 1)}
      all == VEdges(o.pre) \cup new
  IN (c.name = "sequence" /\
        (\/ \E d \in new : d[1] = d[2]
         \/ \E d \in new : d[1] \notin DOMAIN o.pre \/ d[2] \notin DOMAIN o.pre
         \/ \E d \in new : d[1] \in DOMAIN o.pre /\ d[2] \in DOMAIN o.pre /\ o.pre[d[1]].kind # o.pre[d[2]].kind
         \/ (Acyclic(VEdges(o.pre)) /\ ~Acyclic(all))))
     => Failed(o)
C07_only_edges(o) == o.cmd.name \in {"sequence", "sequence_rm"} =>
                       /\ DOMAIN o.post = DOMAIN o.pre
                       /\ \A i \in DOMAIN o.pre :
                            [Core(o.post[i]) EXCEPT !.deps = {}, !.rdeps = {}]
                              = [Core(o.pre[i]) EXCEPT !.deps = {}, !.rdeps = {}]

(***************************************************************************)
(* C09 - prune.                                                            *)
(***************************************************************************)
SpecPruneTasks(v) == {t \in VTasks(v) : Closed(v[t].state)}
SpecPruneSet(v) == SpecPruneTasks(v) \cup
                   {e \in VEpics(v) : VChildren(v, e) \subseteq SpecPruneTasks(v)}
Strip(x, ids) == [Core(x) EXCEPT !.deps = @ \ ids, !.rdeps = @ \ ids]

C09_exact(o) == o.cmd.name = "prune" /\ o.exit = 0 =>
                  /\ o.reply.pruned = SpecPruneSet(o.pre)
                  /\ DOMAIN o.post = DOMAIN o.pre \ SpecPruneSet(o.pre)
                  /\ \A i \in DOMAIN o.post : i \in DOMAIN o.pre /\ Core(o.post[i]) = Strip(o.pre[i], SpecPruneSet(o.pre))
C09_dryrun(o) == o.cmd.name = "prune_dry" /\ o.exit = 0 =>
                  /\ o.reply.pruned = SpecPruneSet(o.pre)
                  /\ o.post = o.pre /\ o.logpost = o.logpre
C09_gone(o) == \A i \in o.gone : i \notin DOMAIN o.post
                                 /\ \A j \in DOMAIN o.post : i \notin o.post[j].deps \cup o.post[j].rdeps
C09_refused(o) == (Targets(o.cmd) \cap o.gone # {}
                   \/ (o.cmd.name \in {"new_task", "set"} /\ o.cmd.epic \in o.gone)
                   \/ (o.cmd.name \in {"claim", "list_ready"} /\ FALSE))
                  => Failed(o)
C09_noreissue(o) == /\ \A i \in DOMAIN o.post \ DOMAIN o.pre : i \notin o.gone
                    /\ (o.cmd.name \in {"new_task", "new_epic", "plan"} =>
                          \A k \in 1..Len(o.cmd.newids) : o.cmd.newids[k] \notin o.gone)
                    /\ (o.cmd.name \in {"new_task", "new_epic", "plan"} /\ o.exit = 0 =>
                          /\ o.reply.id \notin o.gone
                          /\ \A k \in 1..Len(o.reply.ids) : o.reply.ids[k] \notin o.gone)

(***************************************************************************)
(* C10 - a command that fails changes nothing.                             *)
(***************************************************************************)
C10_unchanged(o) == Failed(o) => o.post = o.pre

(***************************************************************************)
(* C12 - state is a function of the log; reads are pure; history grows.    *)
(***************************************************************************)
C12_function_of_log(o) == Replay(o.logpost).err = "" => View(Replay(o.logpost)) = o.post
C12_reads_pure(o) == IsRead(o.cmd) => o.post = o.pre /\ o.logpost = o.logpre
\* a store written only by ergo commands can always be read, and list and show
\* agree about every item (facts recorded by the harness: every read command
\* exited 0; no item differed between `list --json` and `show --json`)
C12_readable(o) == o.readable
C12_consistent(o) == o.listshow
C12_history_grows(o) == o.cmd.name # "compact" => IsPrefix(o.logpre, o.logpost)

(***************************************************************************)
(* C14 - epic references.                                                  *)
(***************************************************************************)
EpicRefOK(v, t) == v[t].epic = "" \/ v[t].epic \in VEpics(v)
\* ... so every live task remains visible under its epic and in the list of
\* everything (o.hidden: what the driver found missing from `show --json <epic>`
\* children / from the human `list --all`)
C14_visible(o) == o.readable => o.hidden = <<>>
C14_ref(o) == \A t \in VTasks(o.post) :
                 ~EpicRefOK(o.post, t) =>
                    (t \in DOMAIN o.pre /\ o.pre[t].epic = o.post[t].epic /\ ~EpicRefOK(o.pre, t)
                     /\ VEpics(o.pre) = VEpics(o.post))
\* "at all times": a rewrite of the log (compact) leaves every task under its epic
C14_compact_keeps(o) == o.cmd.name = "compact" /\ o.exit = 0 =>
                          \A t \in VTasks(o.pre) : t \in DOMAIN o.post /\ o.post[t].epic = o.pre[t].epic
C14_epics_flat(o) == \A e \in VEpics(o.post) : o.post[e].epic = ""
C14_bad_refused(o) ==
  LET c == o.cmd
      e == IF c.name \in {"new_task", "set"} THEN Fld0(c, c.epic) ELSE ABSENT
  IN (e \notin {ABSENT, ""} /\ e \notin VEpics(o.pre)) => Failed(o)

(***************************************************************************)
(* C15 - progress.                                                         *)
(***************************************************************************)
Progress(v) == ((\E t \in VTasks(v) : v[t].state = "todo")
                /\ (\A t \in VTasks(v) : v[t].state \notin {"doing", "blocked", "error"}))
               => \E t \in VTasks(v) : SpecReady(v, t)
VWaits(v) == {<<t, u>> \in VTasks(v) \X VTasks(v) :
                \/ u \in v[t].deps
                \/ (v[t].epic \in VEpics(v) /\ \E e2 \in v[v[t].epic].deps :
                       e2 \in VEpics(v) /\ v[u].epic = e2)}
\* step form; a step that merely exposes a cycle built earlier is not the
\* culprit (the step that closed the cycle fails C15_waits)
C15_progress(o) == Progress(o.post) \/ ~Progress(o.pre) \/ ~Acyclic(VWaits(o.pre))
C15_waits(o) == Acyclic(VWaits(o.post)) \/ ~Acyclic(VWaits(o.pre))
C15_claim(o) == o.cmd.name = "claim" /\ o.exit = 0 /\ o.reply.status = "no_ready" /\ o.cmd.epic = "" =>
                  ~((\E t \in VTasks(o.pre) : o.pre[t].state = "todo")
                    /\ (\A t \in VTasks(o.pre) : o.pre[t].state \notin {"doing", "blocked", "error"}))
                  \/ ~Progress(o.pre)

(***************************************************************************)
(* C16 - --json output is one value and tells the truth.                   *)
(***************************************************************************)
C16_one_value(o) == o.out.json => IF o.exit = 0 THEN o.out.values = 1 /\ o.out.trailing = FALSE
                                  ELSE o.out.values <= 1 /\ o.out.stderr
C16_truth(o) ==
  LET r == o.reply c == o.cmd IN
  o.out.json /\ o.exit = 0 =>
    CASE c.name \in {"new_task", "new_epic"} ->
           /\ r.id \in DOMAIN o.post /\ r.id \notin DOMAIN o.pre /\ r.id \notin o.gone
           /\ o.out.idshape
           /\ o.post[r.id].state = r.state
           /\ o.post[r.id].epic = r.epic
           /\ o.post[r.id].kind = r.kind
      [] c.name = "set" ->
           c.id \in DOMAIN o.post /\ o.post[c.id].state = r.state /\ o.post[c.id].claim = r.claim
      [] c.name \in {"claim_id", "claim"} ->
           r.id # "" => (r.id \in DOMAIN o.post /\ o.post[r.id].state = r.state
                         /\ o.post[r.id].claim = r.claim /\ o.post[r.id].epic = r.epic)
      [] c.name = "sequence" ->
           r.edges \subseteq VEdges(o.post)
      [] c.name = "sequence_rm" ->
           r.edges \cap VEdges(o.post) = {}
      [] c.name = "prune" ->
           r.pruned \cap DOMAIN o.post = {} /\ r.pruned \subseteq DOMAIN o.pre
      [] c.name = "plan" ->
           /\ r.id \in VEpics(o.post) /\ r.id \notin DOMAIN o.pre
           /\ \A k \in 1..Len(r.ids) : r.ids[k] \in VTasks(o.post) /\ o.post[r.ids[k]].epic = r.id
           /\ r.edges = {d \in VEdges(o.post) : d[1] \in {r.ids[k] : k \in 1..Len(r.ids)}}
      [] OTHER -> TRUE

\* every row of every list read (whatever the filter) shows its item as the unfiltered
\* reads show it: state, claimant, epic, ready and blocked flags (o.rows: the rows the
\* driver found to differ)
C16_rows(o) == o.rows = <<>>
C08_rows(o) == o.rows = <<>>

\* an acknowledged `set` is in effect: the epic it named (the empty one included - "no
\* epic" can be said in JSON only) and a released claim are what the next read shows
C16_set_applied(o) ==
  LET c == o.cmd IN
  (c.name = "set" /\ o.exit = 0 /\ c.id \in DOMAIN o.post) =>
     /\ ((c.epic # ABSENT /\ (c.mode = "json" \/ c.epic # "")) => o.post[c.id].epic = c.epic)
     /\ ((c.claim = "" /\ c.mode = "json") => o.post[c.id].claim = "")

\* what the read commands print is the state: list (active tasks), list --all,
\* list --epics, list --epic E, show <id>
C16_reads(o) ==
  LET c == o.cmd ids == {o.reply.ids[k] : k \in 1..Len(o.reply.ids)} v == o.pre IN
  o.out.json =>
    CASE c.name = "list" -> o.exit = 0 /\ ids = {t \in VTasks(v) : ~Closed(v[t].state)} /\ Len(o.reply.ids) = Cardinality(ids)
      [] c.name = "list_all" -> o.exit = 0 /\ ids = VTasks(v) /\ Len(o.reply.ids) = Cardinality(ids)
      [] c.name = "list_epics" -> o.exit = 0 /\ ids = VEpics(v) /\ Len(o.reply.ids) = Cardinality(ids)
      [] c.name = "list_epic" -> o.exit = 0 => ids = {t \in VTasks(v) : v[t].epic = c.epic /\ ~Closed(v[t].state)}
      [] c.name = "show" -> IF c.id \in DOMAIN v
                              THEN o.exit = 0 /\ o.reply.id = c.id /\ o.reply.state = v[c.id].state
                                   /\ o.reply.claim = v[c.id].claim /\ o.reply.epic = v[c.id].epic
                              ELSE Failed(o)
      [] OTHER -> TRUE

(***************************************************************************)
(* C11 - plan.                                                             *)
(***************************************************************************)
\* (several JSON values, or anything else after the document, make the payload invalid)
OneValue(c) == "trail" \notin DOMAIN c \/ c.trail = "ws"
C11_invalid_refused(o) == o.cmd.name = "plan" /\ (~PlanValid(o.cmd.doc) \/ ~OneValue(o.cmd)) =>
                            Failed(o) /\ o.post = o.pre /\ o.logpost = o.logpre
C11_adds_exactly(o) ==
  LET c == o.cmd r == o.reply doc == c.doc n == Len(doc.tasks)
      idOf(t) == r.ids[PlanIndex(doc, t)]
      want == {<<idOf(p[1]), idOf(p[2])>> : p \in PlanAfterPairs(doc)}
      new == DOMAIN o.post \ DOMAIN o.pre
  IN c.name = "plan" /\ o.exit = 0 =>
       /\ PlanValid(doc)
       /\ Len(r.ids) = n
       /\ new = {r.id} \cup {r.ids[k] : k \in 1..n}
       /\ Cardinality(new) = n + 1
       /\ o.post[r.id].kind = "epic" /\ o.post[r.id].title = doc.title
       /\ o.post[r.id].body = (IF doc.body = ABSENT THEN "" ELSE doc.body)
       /\ \A k \in 1..n :
            LET x == o.post[r.ids[k]] IN
              /\ x.kind = "task" /\ x.state = "todo" /\ x.claim = "" /\ x.epic = r.id
              /\ x.title = doc.tasks[k].title
              /\ x.body = (IF doc.tasks[k].body = ABSENT THEN "" ELSE doc.tasks[k].body)
              /\ x.deps = {d[2] : d \in {w \in want : w[1] = r.ids[k]}}
              /\ \A j \in 1..n : j < k => o.post[r.ids[j]].created <= x.created     \* input order
       /\ r.edges = want
C11_preserves(o) == o.cmd.name = "plan" /\ o.exit = 0 =>
                      /\ \A i \in DOMAIN o.pre : i \in DOMAIN o.post /\ o.post[i] = o.pre[i]
                      /\ IsPrefix(o.logpre, o.logpost)

(***************************************************************************)
(* C20 - results.                                                          *)
(***************************************************************************)
C20_only_grow(o) ==
  \A t \in VTasks(o.pre) \cap DOMAIN o.post :
     \/ o.post[t].results = o.pre[t].results
     \/ /\ o.cmd.name \in {"set"} /\ o.cmd.id = t /\ o.cmd.rpath # ABSENT
        /\ Len(o.post[t].results) = Len(o.pre[t].results) + 1
        /\ Tail(o.post[t].results) = o.pre[t].results
        /\ Head(o.post[t].results).path = o.cmd.rclean
        /\ Head(o.post[t].results).summary = Trim(o.cmd.rsum)
C20_confined(o) == o.cmd.name \in {"set", "new_task"} /\ o.cmd.rpath # ABSENT /\ o.exit = 0 => o.cmd.rpathok
\* sha256 = hash of the file, file_url = file:// URL of its absolute path
\* (byte-level facts computed by the harness for every result it displays)
C20_faithful(o) == o.faithful
C20_live_only(o) == o.cmd.name = "set" /\ o.cmd.rpath # ABSENT /\ o.cmd.id \notin VTasks(o.pre) => Failed(o)

(***************************************************************************)
(* C05 - compact is invisible.                                             *)
(***************************************************************************)
ClaimOrder(v) == {<<t, u>> \in SpecReadySet(v, "") \X SpecReadySet(v, "") : v[t].created < v[u].created}
C05_invisible(o) == o.cmd.name = "compact" /\ o.exit = 0 =>
                      /\ o.post = o.pre
                      /\ ClaimOrder(o.post) = ClaimOrder(o.pre)
StripTs(e) == IF e.type \in {"link", "unlink"} THEN [e EXCEPT !.ts = 0] ELSE e
C05_idempotent(o) == o.cmd.name = "compact" /\ o.exit = 0 /\ o.cmd.again =>
                      [k \in 1..Len(o.logpost) |-> StripTs(o.logpost[k])]
                        = [k \in 1..Len(o.logpre) |-> StripTs(o.logpre[k])]
C05_gone_stay(o) == o.cmd.name = "compact" => \A i \in o.gone : i \notin DOMAIN o.post

=============================================================================
