------------------------------ MODULE ErgoOps ------------------------------
(***************************************************************************)
(* Pure operators: the single source of truth for WHAT ERGO DOES.          *)
(*                                                                         *)
(* State of ergo = one append-only log of events; every command replays    *)
(* it into a graph, decides, and appends events inside one flock-protected *)
(* critical section.  This module transcribes, operator for operator:      *)
(*   replay            internal/ergo/graph.go:16-298                       *)
(*   readiness         graph.go:506-652                                    *)
(*   cycle check       graph.go:656-681                                    *)
(*   transition table  model.go:73-118                                     *)
(*   prune policy      prune.go:65-111                                     *)
(*   compaction        graph.go:344-504                                    *)
(*   decision functions, one per critical section                          *)
(*       CreateItem    storage.go:328-396                                  *)
(*       ApplySet      commands_work.go:425-630                            *)
(*       AttachResult  storage.go:504-555                                  *)
(*       LinkEdge      storage.go:274-320                                  *)
(*       ClaimOldest   commands_work.go:293-326                            *)
(*       Prune         prune.go:37-57                                      *)
(*       Plan          commands_plan.go:44-193 (+ plan_input.go Validate)  *)
(*       Compact       commands_work.go:1154-1168                          *)
(*   CLI commands as programs over sections (commands_create.go, RunSet,   *)
(*   RunClaim, RunSequence)                                                *)
(*                                                                         *)
(* Dev is the set of NAMED DEVIATIONS that are switched on.  Dev = {} is   *)
(* the ideal design (what the properties demand); Dev = AsIs is the code   *)
(* as read.  Every place where the code departs from a property is an      *)
(* explicit branch on "Dk" \in Dev, never a silently permissive disjunct.  *)
(***************************************************************************)
EXTENDS Naturals, Sequences, FiniteSets, TLC, SequencesExt, FiniteSetsExt

CONSTANT Dev

ABSENT == "<absent>"          \* a request field that was not given
States  == {"todo", "doing", "done", "blocked", "canceled", "error"}

Trans == [ todo     |-> {"doing", "done", "blocked", "canceled"},
           doing    |-> {"todo", "done", "blocked", "canceled", "error"},
           blocked  |-> {"todo", "doing", "done", "canceled"},
           done     |-> {"todo"},
           canceled |-> {"todo"},
           error    |-> {"todo", "doing", "canceled"} ]

TransitionOK(from, to) == from = to \/ (from \in DOMAIN Trans /\ to \in Trans[from])
Clears(s) == s \in {"todo", "done", "canceled"}      \* these states drop the claim
Needs(s)  == s \in {"doing", "error"}                \* these states need a claim
Closed(s) == s \in {"done", "canceled"}
ClaimRuleOK(s, c) == (Needs(s) => c # "") /\ (Clears(s) => c = "")

(***************************************************************************)
(* Text.  Titles, bodies, agents and summaries are plain strings.  The     *)
(* only text operations the core needs are "is blank" and "trim"; both are *)
(* finite tables shared with the drivers (ErgoText refines them).          *)
(***************************************************************************)
\* ("UBLANK" stands for a string of Unicode-only whitespace, NBSP + U+3000, which the
\* driver substitutes: TLA+ strings are ASCII)
BlankStrings == {"", " ", "  ", "\t", " \n ", "UBLANK"}
Blank(s) == s \in BlankStrings
TrimTable == [ x \in {" T1 ", "  padded  ", "\tT2\n"} |->
                 CASE x = " T1 " -> "T1" [] x = "  padded  " -> "padded" [] OTHER -> "T2" ]
Trim(s) == IF s \in DOMAIN TrimTable THEN TrimTable[s] ELSE IF Blank(s) THEN "" ELSE s

MaxT(a, b) == IF a > b THEN a ELSE b

(***************************************************************************)
(* Graph = result of replay.                                               *)
(*   items : id -> [kind,state,claim,epic,title,body,created,updated,      *)
(*                  results]      (live items only)                        *)
(*   meta  : id -> what compaction consumes (model.go:184-196); time 0 is  *)
(*                 Go's zero time                                          *)
(*   deps  : set of <<from,to>> ("from depends on to"), ids need not exist *)
(*   tomb  : tombstoned ids                                                *)
(*   err   : "" or why the whole replay failed                             *)
(***************************************************************************)
EmptyGraph == [items |-> <<>>, meta |-> <<>>, deps |-> {}, tomb |-> {}, err |-> ""]

Live(g)     == DOMAIN g.items
IsTask(g,i) == i \in Live(g) /\ g.items[i].kind = "task"
IsEpic(g,i) == i \in Live(g) /\ g.items[i].kind = "epic"
TasksOf(g)  == {i \in Live(g) : g.items[i].kind = "task"}
EpicsOf(g)  == {i \in Live(g) : g.items[i].kind = "epic"}
DepsOf(g,i) == {d[2] : d \in {x \in g.deps : x[1] = i}}
RDepsOf(g,i) == {d[1] : d \in {x \in g.deps : x[2] = i}}
Without(f, k) == [x \in DOMAIN f \ {k} |-> f[x]]

UpdItem(g, id, it) == [g EXCEPT !.items = [g.items EXCEPT ![id] = it]]
Touch(it, ts) == [it EXCEPT !.updated = MaxT(@, ts)]

Apply(g, e) ==
  IF g.err # "" THEN g
  ELSE IF e.type \in {"new_task", "new_epic"} THEN
    IF e.id \in g.tomb THEN g
    ELSE IF e.id \in Live(g) THEN [g EXCEPT !.err = "duplicate id"]
    ELSE [g EXCEPT
           !.items = g.items @@ (e.id :> [kind    |-> IF e.type = "new_epic" THEN "epic" ELSE "task",
                                     state   |-> e.state, claim |-> "", epic |-> e.epic,
                                     title   |-> e.title, body |-> e.body,
                                     created |-> e.ts, updated |-> e.ts, results |-> <<>>]),
           !.meta  = g.meta @@ (e.id :> [cTitle |-> e.title, cBody |-> e.body, cState |-> e.state,
                                     cEpic |-> e.epic, created |-> e.ts,
                                     lState |-> 0, lClaim |-> 0, lTitle |-> 0, lBody |-> 0,
                                     lEpic |-> 0])]
  ELSE IF e.type \in {"link", "unlink"} THEN
    IF e.from \in g.tomb \/ e.to \in g.tomb THEN g
    ELSE IF e.type = "link" THEN [g EXCEPT !.deps = @ \cup {<<e.from, e.to>>}]
    ELSE [g EXCEPT !.deps = @ \ {<<e.from, e.to>>}]
  ELSE IF e.type = "tombstone" THEN
    [g EXCEPT !.tomb  = @ \cup {e.id},
              !.items = Without(@, e.id),
              !.meta  = Without(@, e.id),
              !.deps  = {d \in @ : d[1] # e.id /\ d[2] # e.id}]
  ELSE IF e.type \notin {"state", "claim", "unclaim", "title", "body", "epic", "result"} THEN g
  ELSE IF e.id \in g.tomb \/ e.id \notin Live(g) THEN g
  ELSE LET it == g.items[e.id]
           m  == g.meta[e.id] IN
    CASE e.type = "state" ->
           [g EXCEPT !.items[e.id] = Touch([it EXCEPT !.state = e.state,
                                              !.claim = IF Clears(e.state) THEN "" ELSE @], e.ts),
                     !.meta[e.id]  = [m EXCEPT !.lState = e.ts]]
      [] e.type = "claim" ->
           [g EXCEPT !.items[e.id] = [it EXCEPT !.claim = e.agent],
                     !.meta[e.id]  = [m EXCEPT !.lClaim = e.ts]]
      [] e.type = "unclaim" ->
           [g EXCEPT !.items[e.id] = [it EXCEPT !.claim = ""]]
      [] e.type = "title" ->
           [g EXCEPT !.items[e.id] = Touch([it EXCEPT !.title = e.text], e.ts),
                     !.meta[e.id]  = [m EXCEPT !.lTitle = e.ts]]
      [] e.type = "body" ->
           [g EXCEPT !.items[e.id] = Touch([it EXCEPT !.body = e.text], e.ts),
                     !.meta[e.id]  = [m EXCEPT !.lBody = e.ts]]
      [] e.type = "epic" ->
           [g EXCEPT !.items[e.id] = Touch([it EXCEPT !.epic = e.epic], e.ts),
                     !.meta[e.id]  = [m EXCEPT !.lEpic = e.ts]]
      [] e.type = "result" ->
           [g EXCEPT !.items[e.id] =
               Touch([it EXCEPT !.results = <<[summary |-> e.summary, path |-> e.path, ts |-> e.ts]>> \o @],
                     e.ts)]

(***************************************************************************)
(* Legacy items (graph.go:300-342): an item whose title is blank gets a    *)
(* title derived from its body at the end of every replay: the first line  *)
(* that is neither blank nor a markdown heading becomes the title, the     *)
(* lines after it the body.  A finite table of bodies, shared with the     *)
(* crafted-log driver, stands for the string function.                     *)
(***************************************************************************)
LegacyTable ==
  [ b \in {"Fix bug\nmore detail", "# Heading\nReal title\nrest of it", "only a title", "# H", "\n\nLate title\n\ntail"} |->
      CASE b = "Fix bug\nmore detail"                -> <<"Fix bug", "more detail">>
        [] b = "# Heading\nReal title\nrest of it"   -> <<"Real title", "rest of it">>
        [] b = "only a title"                         -> <<"only a title", "">>
        [] b = "# H"                                  -> <<"(untitled)", "# H">>
        [] OTHER                                      -> <<"Late title", "\ntail">> ]
LegacyOf(b) == IF b \in DOMAIN LegacyTable THEN LegacyTable[b]
               ELSE IF Blank(b) THEN <<"(untitled)", "">> ELSE <<b, "">>
Migrate(g) ==
  IF g.err # "" THEN g
  ELSE [g EXCEPT !.items = [i \in DOMAIN g.items |->
          IF Trim(g.items[i].title) = ""
            THEN [g.items[i] EXCEPT !.title = LegacyOf(g.items[i].body)[1],
                                    !.body  = LegacyOf(g.items[i].body)[2]]
            ELSE g.items[i]]]

Replay(log) == Migrate(FoldLeft(Apply, EmptyGraph, log))

(***************************************************************************)
(* Readiness (graph.go:568-652).                                           *)
(***************************************************************************)
EpicComplete(g, e) == \A t \in Live(g) : g.items[t].epic = e => Closed(g.items[t].state)
EpicDepsComplete(g, e) == \A d \in DepsOf(g, e) : IsEpic(g, d) => EpicComplete(g, d)
DepsMet(g, t) == \A d \in DepsOf(g, t) : d \in Live(g) => Closed(g.items[d].state)

IsReady(g, t) ==
  LET it == g.items[t] IN
    /\ it.state = "todo" /\ it.claim = ""
    /\ DepsMet(g, t)
    /\ (it.epic # "" => EpicDepsComplete(g, it.epic))

IsBlocked(g, t) ==
  LET it == g.items[t] IN
    \/ it.state = "blocked"
    \/ /\ it.state = "todo" /\ it.claim = ""
       /\ (~DepsMet(g, t) \/ (it.epic # "" /\ ~EpicDepsComplete(g, it.epic)))

ReadySet(g, epicArg) ==
  {t \in TasksOf(g) : IsReady(g, t) /\ (epicArg = "" \/ g.items[t].epic = epicArg)}

\* the candidates `claim` may hand out: the ready tasks of minimal creation time
\* (ties are broken by id in the code; ids are opaque here, so a tie leaves a choice)
OldestReady(g, epicArg) ==
  LET R == ReadySet(g, epicArg) IN
    {t \in R : \A u \in R : g.items[t].created <= g.items[u].created}

(***************************************************************************)
(* Cycle check on direct edges (graph.go:656-681).                         *)
(***************************************************************************)
RECURSIVE ReachSet(_, _, _)
ReachSet(deps, frontier, seen) ==
  IF frontier = {} THEN seen
  ELSE LET nxt == {d[2] : d \in {x \in deps : x[1] \in frontier}} \ seen
       IN ReachSet(deps, nxt, seen \cup nxt)
Reachable(deps, from) == ReachSet(deps, {from}, {from})
HasCycle(g, from, to) == from = to \/ from \in Reachable(g.deps, to)

Acyclic(deps) == \A d \in deps : d[1] \notin Reachable(deps, d[2])

(***************************************************************************)
(* The EFFECTIVE waits-for relation between live tasks (C15): a task's own *)
(* dependencies plus every child of every epic its epic depends on.        *)
(***************************************************************************)
Waits(g) ==
  {<<t, u>> \in TasksOf(g) \X TasksOf(g) :
      \/ <<t, u>> \in g.deps
      \/ LET e == g.items[t].epic IN
           e # "" /\ \E e2 \in DepsOf(g, e) : IsEpic(g, e2) /\ g.items[u].epic = e2}
WaitsAcyclic(g) == Acyclic(Waits(g))

\* would making task t a member of epic e, or adding edge from->to, close an
\* effective cycle?  (what an ideal ergo refuses; the code checks direct edges only)
WithEdge(g, from, to) == [g EXCEPT !.deps = @ \cup {<<from, to>>}]
WithEpic(g, t, e) == [g EXCEPT !.items[t].epic = e]

(***************************************************************************)
(* Prune policy (prune.go:65-111).                                         *)
(***************************************************************************)
PruneTasks(g) == {t \in TasksOf(g) : Closed(g.items[t].state)}
PruneEpics(g) == {e \in EpicsOf(g) :
                    \A t \in TasksOf(g) \ PruneTasks(g) : g.items[t].epic # e}
PruneTargets(g) == PruneTasks(g) \cup PruneEpics(g)

(***************************************************************************)
(* Events.                                                                 *)
(***************************************************************************)
EvNew(kind, id, epic, state, title, body, ts) ==
  [type |-> IF kind = "epic" THEN "new_epic" ELSE "new_task", id |-> id, epic |-> epic,
   state |-> state, title |-> title, body |-> body, ts |-> ts]
EvState(id, s, ts)    == [type |-> "state", id |-> id, state |-> s, ts |-> ts]
EvClaim(id, a, ts)    == [type |-> "claim", id |-> id, agent |-> a, ts |-> ts]
EvUnclaim(id, ts)     == [type |-> "unclaim", id |-> id, ts |-> ts]
EvTitle(id, x, ts)    == [type |-> "title", id |-> id, text |-> x, ts |-> ts]
EvBody(id, x, ts)     == [type |-> "body", id |-> id, text |-> x, ts |-> ts]
EvEpic(id, e, ts)     == [type |-> "epic", id |-> id, epic |-> e, ts |-> ts]
EvLink(op, f, t, ts)  == [type |-> op, from |-> f, to |-> t, ts |-> ts]
EvResult(id, s, p, ts) == [type |-> "result", id |-> id, summary |-> s, path |-> p, ts |-> ts]
EvTomb(id, ts)        == [type |-> "tombstone", id |-> id, ts |-> ts]

(***************************************************************************)
(* Compaction (graph.go:344-504).  Items in a fixed order, then the edges. *)
(***************************************************************************)
PickTime(c, fb) == IF c # 0 THEN c ELSE fb

CompactItem(g, id) ==
  LET it == g.items[id]
      m  == g.meta[id]
      cAt    == IF m.created # 0 THEN m.created ELSE it.created
      cState == IF m.cState # "" THEN m.cState ELSE it.state
      cTitle == IF m.cTitle # "" THEN m.cTitle ELSE it.title
      cBody  == IF m.cBody # "" THEN m.cBody ELSE it.body
      cEpic  == m.cEpic
      after(t) == t # 0 /\ t > cAt
      RECURSIVE ResultEvs(_)
      ResultEvs(k) == IF k = 0 THEN <<>>
                      ELSE <<EvResult(id, it.results[k].summary, it.results[k].path, it.results[k].ts)>>
                           \o ResultEvs(k - 1)
  IN  <<EvNew(it.kind, id, cEpic, cState, cTitle, cBody, cAt)>>
      \o (IF it.title # cTitle \/ after(m.lTitle)
            THEN <<EvTitle(id, it.title, PickTime(m.lTitle, it.updated))>> ELSE <<>>)
      \o (IF it.body # cBody \/ after(m.lBody)
            THEN <<EvBody(id, it.body, PickTime(m.lBody, it.updated))>> ELSE <<>>)
      \o (IF it.kind # "epic" /\ (it.epic # cEpic \/ after(m.lEpic))
            THEN <<EvEpic(id, it.epic, PickTime(m.lEpic, it.updated))>> ELSE <<>>)
      \o (IF it.claim # ""
            THEN <<EvClaim(id, it.claim, PickTime(m.lClaim, it.updated))>> ELSE <<>>)
      \o (IF it.state # cState \/ after(m.lState)
            THEN <<EvState(id, it.state, PickTime(m.lState, it.updated))>> ELSE <<>>)
      \o ResultEvs(Len(it.results))

CompactLog(g, now) ==
  LET ids   == SetToSeq(Live(g))
      edges == SetToSeq(g.deps)
  IN  FlattenSeq([k \in 1..Len(ids) |-> CompactItem(g, ids[k])])
      \o [k \in 1..Len(edges) |-> EvLink("link", edges[k][1], edges[k][2], now)]

(***************************************************************************)
(* Observable projection: what list --json --all / --epics and show --json *)
(* expose.  A View is id -> record; used identically on the spec's graph   *)
(* and on what the harness observed.                                       *)
(***************************************************************************)
ViewItem(g, i) ==
  LET it == g.items[i] IN
    [kind |-> it.kind, state |-> it.state, claim |-> it.claim, epic |-> it.epic,
     title |-> it.title, body |-> it.body,
     deps |-> DepsOf(g, i), rdeps |-> RDepsOf(g, i),
     results |-> [k \in 1..Len(it.results) |-> [summary |-> it.results[k].summary,
                                                  path |-> it.results[k].path,
                                                  ts |-> it.results[k].ts]],
     ready |-> IsReady(g, i), blocked |-> IsBlocked(g, i),
     created |-> it.created, updated |-> it.updated,
     claimed_at |-> IF it.claim # "" THEN g.meta[i].lClaim ELSE 0]
View(g) == [i \in Live(g) |-> ViewItem(g, i)]

\* a View without the time fields (for comparisons "modulo timestamps")
NoTime(v) == [i \in DOMAIN v |->
                [v[i] EXCEPT !.created = 0, !.updated = 0, !.claimed_at = 0,
                             !.results = [k \in 1..Len(@) |-> [@[k] EXCEPT !.ts = 0]]]]

(***************************************************************************)
(* Decisions.  Each returns [ok, err, events, out]; `out` carries what the *)
(* section hands back to its command.                                      *)
(***************************************************************************)
Fail(why) == [ok |-> FALSE, err |-> why, events |-> <<>>, out |-> <<>>]
Ok(evs, out) == [ok |-> TRUE, err |-> "", events |-> evs, out |-> out]

\* CreateItem: storage.go:328-396
DecideCreate(g, kind, epicArg, title, body, id, ts) ==
  IF g.err # "" THEN Fail("load")
  ELSE IF kind = "task" /\ epicArg # "" /\ epicArg \notin Live(g) THEN Fail("unknown epic")
  ELSE IF kind = "task" /\ epicArg # "" /\
          (IF "D4" \in Dev THEN g.items[epicArg].epic # "" ELSE g.items[epicArg].kind # "epic")
       THEN Fail("not an epic")
  ELSE IF kind = "task" /\ epicArg # "" /\ "D10" \notin Dev /\
          ~WaitsAcyclic(Apply(g, EvNew("task", id, epicArg, "todo", title, body, ts)))
       THEN Fail("would deadlock")       \* tasks of epics depending on this epic wait for the new child too
  ELSE Ok(<<EvNew(kind, id, IF kind = "epic" THEN "" ELSE epicArg, "todo", title, body, ts)>>,
          [id |-> id, state |-> "todo", epic |-> IF kind = "epic" THEN "" ELSE epicArg])

\* ApplySet: commands_work.go:425-473 + buildSetEvents :478-630
\* u = [title, body, epic, claim, state], each ABSENT or a value
NoUpd == [title |-> ABSENT, body |-> ABSENT, epic |-> ABSENT, claim |-> ABSENT, state |-> ABSENT]

DecideSet(g, id, u, agent, ts) ==
  IF g.err # "" THEN Fail("load")
  ELSE IF id \in g.tomb THEN Fail("pruned")
  ELSE IF id \notin Live(g) THEN Fail("unknown id")
  ELSE
    LET it  == g.items[id]
        isE == it.kind = "epic"
    IN
    IF isE /\ u.state # ABSENT THEN Fail("epics do not have state")
    ELSE IF isE /\ u.claim # ABSENT THEN Fail("epics cannot be claimed")
    ELSE
      LET implicit == it.claim = "" /\ u.state \in {"doing", "error"} /\ u.claim = ABSENT   \* :486-495
          claimV   == IF implicit THEN agent ELSE u.claim
          claimSet == claimV # ABSENT
          newClaim == IF u.state # ABSENT /\ Clears(u.state) THEN ""
                      ELSE IF claimSet THEN claimV ELSE it.claim                            \* :592-599
          implied  == claimSet /\ claimV # "" /\ u.state = ABSENT                            \* :616-627
          epicOK   == \/ u.epic \in {ABSENT, ""}
                      \/ "D3" \in Dev
                      \/ IsEpic(g, u.epic)
          epicWaitOK == \/ u.epic \in {ABSENT, ""} \/ "D10" \in Dev \/ ~IsEpic(g, u.epic)
                        \/ WaitsAcyclic(WithEpic(g, id, u.epic))
      IN
      IF implicit /\ agent = "" THEN Fail("state requires claim")
      ELSE IF u.title # ABSENT /\ Trim(u.title) = "" THEN Fail("title cannot be empty")
      ELSE IF u.epic # ABSENT /\ isE THEN Fail("epics cannot be assigned to epics")
      ELSE IF ~epicOK THEN Fail("no such epic")
      ELSE IF ~epicWaitOK THEN Fail("would deadlock")
      ELSE IF u.state # ABSENT /\ u.state \notin States THEN Fail("invalid state")
      ELSE IF u.state # ABSENT /\ ~TransitionOK(it.state, u.state) THEN Fail("invalid transition")
      ELSE IF u.state # ABSENT /\ ~ClaimRuleOK(u.state, newClaim) THEN Fail("claim invariant")
      ELSE IF "D1" \notin Dev /\ implied /\ ~TransitionOK(it.state, "doing") THEN Fail("invalid transition")
      ELSE IF "D2" \notin Dev /\ claimSet /\ claimV = "" /\ u.state = ABSENT /\ Needs(it.state)
           THEN Fail("claim invariant")
      ELSE Ok(  (IF u.title # ABSENT THEN <<EvTitle(id, Trim(u.title), ts)>> ELSE <<>>)
             \o (IF u.body # ABSENT THEN <<EvBody(id, u.body, ts)>> ELSE <<>>)
             \o (IF u.epic # ABSENT THEN <<EvEpic(id, u.epic, ts)>> ELSE <<>>)
             \o (IF ~claimSet THEN <<>>
                 ELSE IF claimV = "" THEN <<EvUnclaim(id, ts)>> ELSE <<EvClaim(id, claimV, ts)>>)
             \o (IF u.state # ABSENT THEN <<EvState(id, u.state, ts)>>
                 ELSE IF implied THEN <<EvState(id, "doing", ts)>> ELSE <<>>),
             [id |-> id])

\* AttachResult: storage.go:504-555.  pathOK abstracts validateResultPath +
\* captureResultEvidence (refined by ErgoText / the C20 path classes)
\* Result paths (C20): a finite table of path spellings shared with the driver,
\* which creates exactly these files: [ok |-> acceptable, clean |-> cleaned path].
\* Acceptable = relative, cleaned path inside the project root and outside
\* .ergo, naming an existing REGULAR file.
ResultPaths ==
  [ p \in {"r1.txt", "r2.txt", "sub/r3.txt", "./r1.txt", "sub/../r2.txt", "sub//r3.txt",
            "missing.txt", "../out.txt", "sub/../../out.txt", "/etc/hostname",
            ".ergo/lock", "./.ergo/lock", "sub/../.ergo/lock", ".ergo",
            "sub", "pipe.fifo", "my file.txt", "a#b.txt", "q?x=1.txt", "p%20c.txt", "100%.txt"} |->
      CASE p \in {"r1.txt", "./r1.txt"} -> [ok |-> TRUE, clean |-> "r1.txt"]
        [] p \in {"r2.txt", "sub/../r2.txt"} -> [ok |-> TRUE, clean |-> "r2.txt"]
        [] p \in {"sub/r3.txt", "sub//r3.txt"} -> [ok |-> TRUE, clean |-> "sub/r3.txt"]
        \* names with characters that mean something in a URL: the path is stored as given,
        \* file_url escapes them (the driver compares it with the URL of the absolute path)
        [] p \in {"my file.txt", "a#b.txt", "q?x=1.txt", "p%20c.txt", "100%.txt"} -> [ok |-> TRUE, clean |-> p]
        [] OTHER -> [ok |-> FALSE, clean |-> p] ]
PathOK(p) == p \in DOMAIN ResultPaths /\ ResultPaths[p].ok
PathClean(p) == IF p \in DOMAIN ResultPaths THEN ResultPaths[p].clean ELSE p

SummaryOK(s) == ~Blank(s) /\ s \notin {"two\nlines", "way too long"}

DecideResult(g, id, summary, path, pathOK, ts) ==
  IF g.err # "" THEN Fail("load")
  ELSE IF id \in g.tomb THEN Fail("pruned")
  ELSE IF id \notin Live(g) THEN Fail("unknown id")
  ELSE IF g.items[id].kind = "epic" THEN Fail("cannot attach result to epic")
  ELSE IF ~SummaryOK(summary) THEN Fail("bad summary")
  ELSE IF ~pathOK THEN Fail("bad path")
  ELSE Ok(<<EvResult(id, Trim(summary), PathClean(path), ts)>>, [id |-> id])

\* LinkEdge: storage.go:274-320
DecideLink(g, op, from, to, ts) ==
  IF g.err # "" THEN Fail("load")
  ELSE IF from \in g.tomb \/ to \in g.tomb THEN Fail("pruned")
  ELSE IF from \notin Live(g) \/ to \notin Live(g) THEN Fail("unknown id")
  ELSE IF from = to THEN Fail("cannot depend on self")
  ELSE IF g.items[from].kind # g.items[to].kind THEN Fail("kind mismatch")
  ELSE IF op = "link" /\ HasCycle(g, from, to) THEN Fail("cycle")
  ELSE IF op = "link" /\ "D10" \notin Dev /\ ~WaitsAcyclic(WithEdge(g, from, to)) THEN Fail("would deadlock")
  ELSE Ok(<<EvLink(op, from, to, ts)>>, [from |-> from, to |-> to])

\* ClaimOldest: commands_work.go:293-326.  `pick` is the task chosen among
\* OldestReady (a singleton unless creation times tie)
DecideClaimOldest(g, epicArg, agent, pick, ts) ==
  IF g.err # "" THEN Fail("load")
  ELSE IF ReadySet(g, epicArg) = {} THEN [ok |-> TRUE, err |-> "no_ready", events |-> <<>>, out |-> <<>>]
  ELSE Ok(<<EvClaim(pick, agent, ts), EvState(pick, "doing", ts)>>,
          [id |-> pick, state |-> "doing", agent |-> agent])

\* Prune: prune.go:37-57
DecidePrune(g, apply, ts) ==
  IF g.err # "" THEN Fail("load")
  ELSE LET ids == SetToSeq(PruneTargets(g)) IN
    Ok(IF apply THEN [k \in 1..Len(ids) |-> EvTomb(ids[k], ts)] ELSE <<>>,
       [pruned |-> PruneTargets(g)])

(***************************************************************************)
(* Plan.  doc = [title, body, tasks], tasks a sequence of                  *)
(* [title, body, after] with `after` a sequence of titles; body may be     *)
(* ABSENT.  ids = the fresh ids to use (epic first, then tasks in order).  *)
(***************************************************************************)
PlanTitles(doc) == [k \in 1..Len(doc.tasks) |-> doc.tasks[k].title]
PlanIndex(doc, t) == CHOOSE k \in 1..Len(doc.tasks) : doc.tasks[k].title = t
PlanAfterPairs(doc) ==
  UNION {{<<doc.tasks[k].title, doc.tasks[k].after[j]>> : j \in 1..Len(doc.tasks[k].after)} :
            k \in 1..Len(doc.tasks)}

PlanValid(doc) ==                                             \* plan_input.go:94-178
  LET titles == PlanTitles(doc)
      tset   == {titles[k] : k \in 1..Len(titles)}
      pairs  == PlanAfterPairs(doc)
  IN /\ ~Blank(doc.title)
     /\ (doc.body # ABSENT => ~Blank(doc.body))
     /\ Len(doc.tasks) > 0
     /\ \A k \in 1..Len(doc.tasks) :
           /\ ~Blank(doc.tasks[k].title)
           /\ (doc.tasks[k].body # ABSENT => ~Blank(doc.tasks[k].body))
     /\ Cardinality(tset) = Len(titles)                       \* no duplicate title
     /\ \A p \in pairs : ~Blank(p[2]) /\ p[1] # p[2] /\ p[2] \in tset
     /\ Acyclic(pairs)

RECURSIVE DedupSeq(_, _)
DedupSeq(s, seen) == IF s = <<>> THEN <<>>
                     ELSE IF Head(s) \in seen THEN DedupSeq(Tail(s), seen)
                     ELSE <<Head(s)>> \o DedupSeq(Tail(s), seen \cup {Head(s)})

DecidePlan(g, doc, ids, ts) ==
  IF ~PlanValid(doc) THEN Fail("invalid plan")
  ELSE IF g.err # "" THEN Fail("load")
  ELSE
    LET n      == Len(doc.tasks)
        eid    == ids[1]
        tid(k) == ids[k + 1]
        idOf(t) == tid(PlanIndex(doc, t))
        bodyOf(b) == IF b = ABSENT THEN "" ELSE b
        edgeSeq == DedupSeq(FlattenSeq([k \in 1..n |->
                      [j \in 1..Len(doc.tasks[k].after) |-> <<tid(k), idOf(doc.tasks[k].after[j])>>]]), {})
    IN Ok(<<EvNew("epic", eid, "", "todo", doc.title, bodyOf(doc.body), ts)>>
          \o [k \in 1..n |-> EvNew("task", tid(k), eid, "todo", doc.tasks[k].title,
                                   bodyOf(doc.tasks[k].body), ts + k)]
          \o [k \in 1..Len(edgeSeq) |-> EvLink("link", edgeSeq[k][1], edgeSeq[k][2], ts + n + k)],
          [epic |-> eid, tasks |-> [k \in 1..n |-> tid(k)],
           edges |-> {edgeSeq[k] : k \in 1..Len(edgeSeq)}])

PlanSpan(doc) == 1 + Len(doc.tasks) + Cardinality(PlanAfterPairs(doc))   \* logical time consumed

=============================================================================
