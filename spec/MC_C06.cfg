SPECIFICATION Spec
CONSTANTS
  Dev <- NoDev
  MaxTasks = 2
  MaxEpics = 1
  MaxDepth = 5
  Agents = {"a1", "a2"}
  CmdNames = {"new_task", "new_epic", "set", "claim_id", "claim"}
  StateArgs = {"todo", "doing", "done", "blocked", "canceled", "error", "bogus"}
  ClaimArgs = {"", "a1"}
  Extras = {}
  PlanDocs <- NoDocs
  ViewMode = "graph"
  Emit = "none"
VIEW StateView
INVARIANTS ReplayNeverFails TypeOK CodeReadyIsSpecReady EmitInv
PROPERTIES P_C06 P_C10 P_C12 P_C16 P_C08
CHECK_DEADLOCK FALSE
